"""
C15 -- inferred and user-specified domains represent the intended set.

Model: lean/SageoptModel/Model/Domain.lean (posyIneq, monoEq, gpPolyIneq, gpPolyEq, clconGt, clconEq, inferSig, inferPoly,
reorderCols); theorems: Props/C15.lean.
Tie:
  infer     random lists of signomial / polynomial constraints (convexifiable or not; 1, 2, >= 3 terms; equalities) -> the real
            infer_domain: which constraints are kept, their normalised forms (X.gts / X.eqs), and every generated coniclifts
            constraint (affine row / sum of exponentials / equation, with its data) compared with the model (logarithms numerically);
  reorder   domains given by coniclifts constraints over one Variable (absent components, atoms that add auxiliary columns):
            X.A, X.b, X.K vs the model's column reordering of the freshly compiled system.
Audit: random points: the original constraints, the kept constraints (X.gts / X.eqs, check_membership), and the conic data (A, b, K)
with the first n columns as x (existence of auxiliary values decided by a small ECOS feasibility problem) describe one set, and that
set contains every point satisfying all of gts / eqs; suppfunc against sampled members and closed forms on boxes; empty domains are
rejected at construction.
"""
import math
from fractions import Fraction as F

import numpy as np

import clmodel as clm
import common
import relaxmodel as rm
import sigtree as st
from common import frac_str, run_driver

TRUSTED = [
    'Lean 4.33.0 kernel; axioms of every theorem in Props/C15*.lean within {propext, Classical.choice, Quot.sound}',
    'harness/clmodel.py (serialisation of coniclifts constraints, their values by definition), harness/props/c15.py',
    'ECOS for: existence of auxiliary values in the audit (points are kept 1e-3 away from the boundary), suppfunc, emptiness',
]
ASSUME = [
    'logarithms are symbolic in the model (log(num/den) recorded by its argument) and compared numerically (1e-12) with the floats the code stores',
    'the compiled system of the generated coniclifts constraints is C07\'s subject; here the audit checks (A, b, K) pointwise',
    '_check_feasibility relies on the solver: emptiness detection is audited on instances with a margin, not proved',
]

MARGIN = 1e-3


def sig_json(g):
    alpha, (c,) = rm.sort_rows(st.mat_json(g.alpha), [rm.fr(x) for x in np.asarray(g.c, dtype=float)])
    return {'alpha': alpha, 'c': c}


def model_sig_json(s):
    alpha, (c,) = rm.sort_rows(s['alpha'], s['c'])
    return {'alpha': alpha, 'c': c}


def gen_constraint(rng, n, poly, eq):
    """a constraint g >= 0 or g == 0: convexifiable shapes (one positive term) and non-convexifiable ones, 1..4 terms"""
    m = rng.choice([1, 2, 2, 3, 3, 4])
    rows, seen = [], set()
    while len(rows) < m:
        if poly:
            r = tuple(F(rng.choice([0, 2, 4, 2, 0, 1, 3])) for _ in range(n))
        else:
            r = tuple(F(rng.randint(-2, 3)) for _ in range(n))
        if r not in seen:
            seen.add(r)
            rows.append(list(r))
    shape = rng.random()
    if shape < 0.6:
        c = [F(-rng.randint(1, 3)) for _ in rows]
        c[rng.randrange(m)] = F(rng.randint(1, 6))                  # exactly one positive term
    elif shape < 0.8:
        c = [F(rng.choice([-2, -1, 1, 2, 3])) for _ in rows]        # arbitrary signs
    else:
        c = [F(rng.randint(1, 3)) for _ in rows]                    # all positive
    if eq and rng.random() < 0.6 and m >= 2:
        rows, c = rows[:2], [F(rng.randint(1, 4)), F(-rng.randint(1, 4))]
        if rng.random() < 0.5:
            c = c[::-1]
    elif not eq and shape < 0.6 and m >= 2 and rng.random() < 0.08:
        # one of the negative terms has a genuine coefficient of size 1e-9 (2^-30): it is part of the constraint (and decides it
        # far out), not round-off
        negs = [i for i, v in enumerate(c) if v < 0]
        c[rng.choice(negs)] = F(-1, 2 ** 30)
    return rm.sig_leaf(rows, c, poly=poly)


def gen_sibling(rng, leaf):
    """a second constraint over (almost) the same monomials as `leaf`, with the positive term at the same place and other
    coefficients: after normalisation the two constraints contain EQUAL exponential atoms"""
    rows = [list(r) for r in leaf['alpha']]
    c = [F(x) for x in leaf['c']]
    c2 = [F(rng.randint(1, 6)) if x > 0 else F(-rng.randint(1, 3)) for x in c]
    if len(rows) >= 3 and rng.random() < 0.3:
        k = rng.choice([i for i, x in enumerate(c) if x < 0] or [0])
        new = [frac_str(F(rng.choice([0, 2, 4]) if leaf['poly'] else rng.randint(-2, 3))) for _ in rows[k]]
        if new not in rows:
            rows[k] = new
    return rm.sig_leaf([[F(x) for x in r] for r in rows], c2, poly=leaf['poly'])


def gen_infer_case(rng):
    poly = rng.random() < 0.45
    n = rng.randint(1, 3)
    gts = [gen_constraint(rng, n, poly, False) for _ in range(rng.randint(0, 3))]
    if gts and rng.random() < 0.6:
        gts.insert(rng.randint(1, len(gts)), gen_sibling(rng, gts[0]))
    eqs = [gen_constraint(rng, n, poly, True) for _ in range(rng.randint(0, 2))]
    return {'poly': poly, 'n': n, 'gts': gts, 'eqs': eqs}


def ser_infer(X, n):
    """the inferred domain in the model's vocabulary"""
    xvar = X._x if hasattr(X, '_x') else X._y
    xids = {int(i): k for k, i in enumerate(xvar.scalar_variable_ids)}
    cons = []
    for con in (X._constraints if hasattr(X, '_constraints') else X._logspace_cons):
        sc = clm.ser_con(con)
        assert sc['cls'] == 'elem' and len(sc['rows']) == 1, 'unexpected constraint shape'
        row = sc['rows'][0]
        lin = [0] * n
        exps = []
        for ref, co in row['terms']:
            if 'v' in ref:
                lin[xids[ref['v']]] = F(co)
            else:
                assert ref['kind'] == 'Exponential' and F(ref['args'][0]['off']) == 0, 'unexpected atom %s' % ref['kind']
                a = [F(0)] * n
                for v, q in ref['args'][0]['co']:
                    a[xids[v]] += F(q)
                exps.append(([frac_str(x) for x in a], frac_str(F(co))))
        if exps:
            assert all(x == 0 for x in lin) and not sc['eq']
            cons.append({'kind': 'lse', 'terms': sorted(exps), 'cst': frac_str(-F(row['off']))})
        else:
            cons.append({'kind': 'eq' if sc['eq'] else 'lin', 'a': [frac_str(x) for x in lin], 'rhs': -float(F(row['off']))})
    return {'none': False, 'gts': [sig_json(g) for g in X.gts], 'eqs': [sig_json(g) for g in X.eqs], 'cons': cons}


def canon_model_infer(mo):
    if mo.get('none'):
        return {'none': True}
    cons = []
    for c in mo['cons']:
        if c['kind'] == 'lse':
            cons.append({'kind': 'lse', 'terms': sorted((a, q) for a, q in zip(c['alpha'], c['c'])), 'cst': c['cst']})
        else:
            cons.append({'kind': c['kind'], 'a': c['a'], 'rhs': math.log(float(F(c['num'])) / float(F(c['den'])))})
    return {'none': False, 'gts': [model_sig_json(g) for g in mo['gts']], 'eqs': [model_sig_json(g) for g in mo['eqs']], 'cons': cons}


def infer_equal(a, b):
    if a.get('none') or b.get('none'):
        return bool(a.get('none')) == bool(b.get('none'))
    if common.canon_json([a['gts'], a['eqs']]) != common.canon_json([b['gts'], b['eqs']]):
        return False
    if len(a['cons']) != len(b['cons']):
        return False
    for x, y in zip(a['cons'], b['cons']):
        if x['kind'] != y['kind']:
            return False
        if x['kind'] == 'lse':
            if common.canon_json([[list(t) for t in x['terms']], x['cst']]) != common.canon_json([[list(t) for t in y['terms']], y['cst']]):
                return False
        else:
            if x['a'] != y['a'] or abs(x['rhs'] - y['rhs']) > 1e-12 * max(1.0, abs(y['rhs'])):
                return False
    return True


def real_infer(c, check_feas=False):
    import sageopt.relaxations.sage_sigs as ss
    import sageopt.relaxations.sage_polys as sp
    gts = [st.build(g) for g in c['gts']]
    eqs = [st.build(g) for g in c['eqs']]
    if c['poly']:
        from sageopt.symbolic.polynomials import Polynomial
        f = Polynomial(np.zeros((1, c['n'])), np.array([1.0]))
        return gts, eqs, sp.infer_domain(f, gts, eqs, check_feas=check_feas)
    from sageopt.symbolic.signomials import Signomial
    f = Signomial(np.zeros((1, c['n'])), np.array([1.0]))
    return gts, eqs, ss.infer_domain(f, gts, eqs, check_feas=check_feas)


def conic_member(X, n, y):
    """is y (length n) in {x | exists aux: A (x, aux) + b in K}?  True / False / None (solver trouble)"""
    import sageopt.coniclifts as cl
    A = np.asarray(X.A, dtype=float)
    N = A.shape[1]
    base = A[:, :n] @ np.asarray(y, dtype=float) + np.asarray(X.b, dtype=float)
    if N == n:
        res, i = [], 0
        for co in X.K:
            res.append(clm.cone_member(co.type, base[i:i + co.len].tolist(), margin=1e-9))
            i += co.len
        return clm.combine(res)
    Aaux = A[:, n:]
    nz = [j for j in range(Aaux.shape[1]) if np.any(Aaux[:, j] != 0)]       # an all-zero column constrains nothing
    if not nz:
        res, i = [], 0
        for co in X.K:
            res.append(clm.cone_member(co.type, base[i:i + co.len].tolist(), margin=1e-9))
            i += co.len
        return clm.combine(res)
    # rows of '+' / '0' cones without auxiliary entries are decided directly (constant rows confuse the solver's set-up)
    keep_rows, K2, i = [], [], 0
    for co in X.K:
        rows = list(range(i, i + co.len))
        i += co.len
        if co.type in ('+', '0'):
            live = []
            for r in rows:
                if np.any(Aaux[r, nz] != 0):
                    live.append(r)
                else:
                    ok = clm.cone_member(co.type, [float(base[r])], margin=1e-9)
                    if ok is False:
                        return False
                    if ok is None:
                        return None
            if live:
                keep_rows += live
                K2.append((co.type, len(live)))
        else:
            keep_rows += rows
            K2.append((co.type, int(co.len)))
    if not keep_rows:
        return True
    return bool_or_none(_conic_member_child, (Aaux[np.ix_(keep_rows, nz)], base[keep_rows], K2))


def _conic_member_child(args):
    import sageopt.coniclifts as cl
    from sageopt.coniclifts.cones import Cone
    Aaux, base, K = args
    aux = cl.Variable(shape=(Aaux.shape[1],), name='c15_aux')
    con = cl.PrimalProductCone(Aaux @ aux + base, [Cone(t, l) for t, l in K])
    # feasibility with a bounded objective: minimise t subject to t >= aux_j, t >= -aux_j would add cones; instead bound the
    # auxiliary values by a box far away and minimise their sum
    st_, val = cl.Problem(cl.MIN, cl.sum(aux), [con, aux >= -1.0]).solve(solver='ECOS', verbose=False)
    if st_ != 'solved':
        return None
    return val != math.inf


def bool_or_none(fn, args, timeout=30):
    """run fn(args) in a forked child (the solver may crash); None when it does not answer"""
    import multiprocessing as mp
    ctx_ = mp.get_context('fork')
    parent, child = ctx_.Pipe(duplex=False)

    def work(conn):
        try:
            conn.send(fn(args))
        except Exception:  # noqa: BLE001
            conn.send(None)
        finally:
            conn.close()
    p = ctx_.Process(target=work, args=(child,))
    p.start()
    child.close()
    res = None
    try:
        if parent.poll(timeout):
            res = parent.recv()
    except (EOFError, OSError):
        res = None
    p.join(1)
    if p.is_alive():
        p.kill()
        p.join()
    return res


conic_member.k = 0


def margin_status(vals_gt, vals_eq, eq_points):
    """+1: all inequalities hold with margin (equalities hold exactly by construction); -1: some inequality violated with margin;
    0: too close to call"""
    if any(v < -MARGIN for v in vals_gt):
        return -1
    if eq_points is False and vals_eq and any(abs(v) > MARGIN for v in vals_eq):
        return -1
    if all(v > MARGIN for v in vals_gt) and all(abs(v) < 1e-9 for v in vals_eq):
        return 1
    return 0


def sample_points(rng, n, count, eqcons):
    """random points; when equalities a.y = r are present, project onto them (one coordinate solved)"""
    pts = []
    for _ in range(count):
        y = [rng.randint(-8, 8) / 4.0 for _ in range(n)]
        ok = True
        for a, r in eqcons:
            idx = [j for j in range(n) if a[j] != 0]
            if not idx:
                ok = False
                break
            j = idx[-1]
            y[j] = (r - sum(a[k] * y[k] for k in range(n) if k != j)) / a[j]
        if ok:
            pts.append(y)
    return pts


def stream_infer(ctx, rng, N, given=None, pinned=None):
    cases = given if given is not None else [gen_infer_case(rng) for _ in range(N)]
    lines, outs, keep = [], [], []
    for c in cases:
        try:
            gts, eqs, X = real_infer(c)
            io = {'none': True} if X is None else ser_infer(X, c['n'])
        except AssertionError as e:
            io = {'unexpected-shape': str(e)[:160]}
            gts = eqs = X = None
        except Exception as e:  # noqa: BLE001
            io = {'raises': type(e).__name__, 'msg': str(e)[:120]}
            gts = eqs = X = None
        lines.append({'op': 'domain.infer_poly' if c['poly'] else 'domain.infer_sig', 'gts': [st.strip_types(g) for g in c['gts']],
                      'eqs': [st.strip_types(g) for g in c['eqs']]})
        outs.append(io)
        keep.append((gts, eqs, X))
    mouts = run_driver(lines)
    for c, io, mo, (gts, eqs, X) in zip(cases, outs, mouts, keep):
        if isinstance(mo, dict) and 'error' in mo:
            raise common.DriverError(mo['error'])
        ctx.case({'stream': 'infer', 'case': c}, nontrivial=bool(c['gts'] or c['eqs']))
        ctx.count('stream:infer:' + ('poly' if c['poly'] else 'sig'))
        if 'unexpected-shape' in io:
            ctx.disagreement('infer', c, io, mo)
            continue
        if 'raises' in io or 'raises' in mo:
            ctx.count('infer:raises')
            if ('raises' in io) != ('raises' in mo):
                ctx.disagreement('infer', c, io, mo)
            else:
                ctx.traces_validated += 1
            continue
        m = canon_model_infer(mo)
        ctx.count('infer:' + ('none' if m.get('none') else 'domain'))
        if not infer_equal(io, m):
            ctx.disagreement('infer', c, io, m)
        else:
            ctx.traces_validated += 1
        if X is not None:
            why = audit_inferred(ctx, rng, c, gts, eqs, X, m, pinned=pinned)
            if why:
                ctx.violation('inferred domain: ' + why[0], {'stream': 'infer', 'case': c, 'point': why[1]})


def tri(g, x, poly, eq):
    """three-valued truth of g(x) >= 0 (or g(x) == 0), relative to the size of g's terms: True / False / None (too close)"""
    a = np.asarray(g.alpha, dtype=float)
    c = np.asarray(g.c, dtype=float)
    with np.errstate(all='ignore'):
        terms = c * (np.prod(np.power(np.abs(x), a), axis=1) * np.prod(np.where((a % 2 == 1) & (x < 0), -1.0, 1.0), axis=1) if poly
                     else np.exp(a @ x))
    if not np.all(np.isfinite(terms)):
        return None
    v = float(np.sum(terms))
    sc = float(np.max(np.abs(terms))) if terms.size else 0.0
    if sc == 0.0:
        return True
    if eq:
        return True if abs(v) <= 1e-9 * sc else (False if abs(v) > MARGIN * sc else None)
    return True if v > MARGIN * sc else (False if v < -MARGIN * sc else None)


def all3(vals):
    if any(v is False for v in vals):
        return False
    if any(v is None for v in vals):
        return None
    return True


def audit_inferred(ctx, rng, c, gts, eqs, X, m, pinned=None):
    """pointwise: all constraints => in X;  kept constraints (X.gts / X.eqs) <=> conic data <=> check_membership"""
    n = c['n']
    eqcons = [([float(F(x)) for x in k['a']], k['rhs']) for k in m.get('cons', []) if k['kind'] == 'eq']
    pts = sample_points(rng, n, 14, eqcons) + sample_points(rng, n, 4, [])
    far = set()
    if '/1073741824' in common.canon_json([c['gts'], c['eqs']]):
        # a coefficient of size 2^-30 somewhere: points far out, where its term is of size one and more
        for _ in range(8):
            y = [rng.randint(-4, 4) / 4.0 for _ in range(n)]
            y[rng.randrange(n)] = float(rng.choice([-22, -11, 11, 22]))
            far.add(len(pts))
            pts.append(y)
    if pinned is not None:
        far = {i + 1 for i in far}
        # a stored point x of a violation: its log-magnitudes first
        with np.errstate(all='ignore'):
            pts = [[math.log(abs(v)) if c['poly'] else float(v) for v in pinned]] + pts
    for pi, y in enumerate(pts):
        if c['poly']:
            sgn = [rng.choice([-1.0, 1.0]) for _ in range(n)]
            if pinned is not None and pi == 0:
                sgn = [-1.0 if v < 0 else 1.0 for v in pinned]
            x = np.array([s_ * math.exp(v) for s_, v in zip(sgn, y)])
        else:
            x = np.array(y, dtype=float)
        orig = all3([tri(g, x, c['poly'], False) for g in gts] + [tri(g, x, c['poly'], True) for g in eqs])
        kept = all3([tri(g, x, c['poly'], False) for g in X.gts] + [tri(g, x, c['poly'], True) for g in X.eqs])
        if kept is None:
            continue
        ctx.count('audit:points')
        # exactness: the constraints the MODEL keeps (the convexifiable ones, as exact rationals derived from the input) against the
        # ones the implementation kept (X.gts / X.eqs)
        if not m.get('none'):
            class _G:
                pass
            mg = []
            for js, eq_ in [(g_, False) for g_ in m.get('gts', [])] + [(g_, True) for g_ in m.get('eqs', [])]:
                o = _G()
                o.alpha = np.array([[float(F(v)) for v in r] for r in js['alpha']], dtype=float).reshape(len(js['c']), n)
                o.c = np.array([float(F(v)) for v in js['c']], dtype=float)
                mg.append(tri(o, x, c['poly'], eq_))
            keptm = all3(mg)
            if keptm is False and kept is True:
                return ('the point %s violates a convexifiable constraint of the input (with margin) but satisfies every constraint kept in '
                        'X.gts / X.eqs: X is larger than the set the convexifiable constraints cut out' % x.tolist(), x.tolist())
        if orig is True and kept is False:
            return ('the point %s satisfies all of gts and eqs but violates a constraint kept in X.gts / X.eqs' % x.tolist(), x.tolist())
        inX = conic_member(X, n, y)
        if inX is None:
            ctx.incon('audit: conic membership undecided')
            continue
        if kept != inX and pi in far and kept is True:
            # far out the solver cannot be trusted to FIND auxiliary values (numbers of size e^60); a point it does certify is certified
            ctx.count('audit:far-point-undecided')
            continue
        if kept != inX:
            return ('the point %s %s every kept constraint (with margin) but its image %s %s the conic data (A, b, K)'
                    % (x.tolist(), 'satisfies' if kept else 'violates', y, 'satisfies' if inX else 'violates'), x.tolist())
        with np.errstate(all='ignore'):
            vals = [abs(float(g(x))) for g in list(X.gts) + list(X.eqs)]
        if all(math.isfinite(v) for v in vals) and (kept is False or all(v > 1e-5 for v in [abs(float(g(x))) for g in X.gts])):
            member = bool(X.check_membership(x, 1e-7))
            decided = kept if kept else None
            if kept is True and not member:
                return ('check_membership(%s, 1e-7) is False although every kept constraint holds with margin' % x.tolist(), x.tolist())
    return None


# ------------------------------------------------------------------------------------------------
# domains given by coniclifts constraints
# ------------------------------------------------------------------------------------------------

def gen_clcons(rng, n, x):
    """random constraints over the Variable x; returns (constraints, description for replay)"""
    import sageopt.coniclifts as cl
    used = [j for j in range(n) if rng.random() < 0.75] or [rng.randrange(n)]
    cons, desc = [], []
    for j in used:
        lo, hi = rng.randint(-3, 0), rng.randint(1, 3)
        cons += [x[j] >= float(lo), x[j] <= float(hi)]
        desc.append(['box', j, lo, hi])
    k = rng.choice(['none', 'none', 'exp', 'norm', 'abs', 'eq'])
    if k == 'exp' and len(used) >= 1:
        idx = rng.sample(used, min(len(used), 2))
        w = [float(rng.choice([1, 2])) for _ in idx]
        cons.append(cl.weighted_sum_exp(np.array(w), x[idx]) <= 6.0)
        desc.append(['exp', idx, w])
    elif k == 'norm' and len(used) >= 2:
        idx = rng.sample(used, 2)
        cons.append(cl.vector2norm(x[idx]) <= 2.5)
        desc.append(['norm', idx])
    elif k == 'abs':
        j = rng.choice(used)
        from sageopt.coniclifts.operators.abs import abs as cl_abs
        cons.append(cl_abs(x[j:j + 1]) <= 2.0)
        desc.append(['abs', j])
    elif k == 'eq' and len(used) >= 2:
        i, j = rng.sample(used, 2)
        cons.append(x[i] + x[j] == 0.5)
        desc.append(['eq', i, j])
    rng.shuffle(cons)
    return cons, desc


def stream_reorder(ctx, master, N, seeds=None):
    import random
    import sageopt.coniclifts as cl
    from sageopt.symbolic.signomials import SigDomain
    from sageopt.symbolic.polynomials import PolyDomain
    lines, metas = [], []
    seeds = seeds if seeds is not None else [master.randrange(1 << 30) for _ in range(N)]
    for t, cseed in enumerate(seeds):
        rng = random.Random(cseed)          # every case from its own sub-seed, so that a stored violation can be executed again
        n = rng.randint(1, 4)
        poly = rng.random() < 0.4
        x = cl.Variable(shape=(n,), name='c15x_%d_%d' % (ctx.seed, t))
        cons, desc = gen_clcons(rng, n, x)
        try:
            X = PolyDomain(n, logspace_cons=cons, check_feas=False) if poly else SigDomain(n, coniclifts_cons=cons, check_feas=False)
        except Exception as e:  # noqa: BLE001
            ctx.violation('constructing a domain from coniclifts constraints raised %s: %s' % (type(e).__name__, str(e)[:80]),
                          {'stream': 'reorder', 'n': n, 'desc': desc, 'poly': poly, 'cseed': cseed})
            continue
        A, b, K, vmap, _, _ = cl.compile_constrained_system(cons)
        A = A.toarray()
        sel = [int(i) for i in np.asarray(vmap[x.name]).ravel()]
        lines.append({'op': 'domain.reorder', 'A': [[rm.fr(v) for v in row] for row in A.tolist()], 'ncols': int(A.shape[1]), 'selector': sel})
        metas.append((n, poly, desc, X, cons, x, b, K, rng, cseed))
    mouts = run_driver(lines)
    for (n, poly, desc, X, cons, x, b, K, rng, cseed), mo in zip(metas, mouts):
        if isinstance(mo, dict) and 'error' in mo:
            raise common.DriverError(mo['error'])
        case = {'n': n, 'poly': poly, 'desc': desc, 'cseed': cseed}
        ctx.case({'stream': 'reorder', 'case': case}, nontrivial=True)
        ctx.count('stream:reorder')
        ctx.count('reorder:aux=%d' % (np.asarray(X.A).shape[1] - n))
        got = {'A': [[rm.fr(v) for v in row] for row in np.asarray(X.A, dtype=float).tolist()], 'b': [rm.fr(v) for v in X.b],
               'K': [[co.type, int(co.len)] for co in X.K]}
        want = {'A': mo['A'], 'b': [rm.fr(v) for v in b], 'K': [[co.type, int(co.len)] for co in K]}
        if common.canon_json(got) != common.canon_json(want):
            ctx.disagreement('reorder', case, got, want)
        else:
            ctx.traces_validated += 1
        # semantic audit: constraints by definition <=> conic data with the first n columns as x
        sers = [clm.ser_con(c) for c in cons]
        ids = [int(i) for i in x.scalar_variable_ids]
        npts = 8 if common.canon_json(got) == common.canon_json(want) else 60       # failing-input search when the data differ
        for _ in range(npts):
            y = [rng.randint(-14, 14) / 4.0 for _ in range(n)]
            sigma = {i: v for i, v in zip(ids, y)}
            inside = clm.combine([clm.con_holds(s, sigma, margin=MARGIN) for s in sers])
            if inside is None:
                continue
            ctx.count('audit:points')
            inX = conic_member(X, n, y)
            if inX is None:
                ctx.incon('audit: conic membership undecided')
                continue
            if inside != inX:
                ctx.violation('domain from coniclifts constraints: the point %s %s the constraints but %s the conic data (A, b, K) with the first n '
                              'columns as x' % (y, 'satisfies' if inside else 'violates', 'violates' if inside else 'satisfies'),
                              {'stream': 'reorder', 'case': case, 'point': y})
                break
        # support function on sampled members and closed form in box directions
        boxes = {d[1]: (d[2], d[3]) for d in desc if d[0] == 'box'}
        if len(desc) == len(boxes) and not poly:
            # directions vanish on the components that occur in no constraint (there the support function is +infinity)
            yv = np.array([float(rng.choice([-2, -1, 0, 1, 3])) if j in boxes else 0.0 for j in range(n)])
            want_s = float(sum(v * (boxes[j][1] if v > 0 else boxes[j][0]) for j, v in enumerate(yv) if j in boxes))
            ctx.count('audit:suppfunc:absent=%d' % (n - len(boxes)))
            try:
                got_s = float(X.suppfunc(yv))
            except Exception as e:  # noqa: BLE001
                ctx.violation('suppfunc raised %s' % type(e).__name__, {'stream': 'reorder', 'case': case})
                continue
            ctx.count('audit:suppfunc')
            if abs(got_s - want_s) > 1e-5 * max(1.0, abs(want_s)):
                ctx.violation('suppfunc(%s) = %.9g on the box %s, closed form %.9g' % (yv.tolist(), got_s, boxes, want_s),
                              {'stream': 'reorder', 'case': case, 'y': yv.tolist()})
                continue
            # the documented way to change what an existing domain object represents: parse other constraints into it; the
            # conic data and the support function must both follow (same direction asked again)
            boxes2 = {j: (lo - rng.randint(1, 2), hi + rng.randint(1, 3)) for j, (lo, hi) in boxes.items()}
            cons2 = []
            for j, (lo, hi) in boxes2.items():
                cons2 += [x[j] >= float(lo), x[j] <= float(hi)]
            want2 = float(sum(v * (boxes2[j][1] if v > 0 else boxes2[j][0]) for j, v in enumerate(yv) if j in boxes2))
            try:
                X.parse_coniclifts_constraints(cons2)
                got2 = float(X.suppfunc(yv))
            except Exception as e:  # noqa: BLE001
                ctx.violation('parse_coniclifts_constraints + suppfunc on an existing domain raised %s' % type(e).__name__,
                              {'stream': 'reorder', 'case': case})
                continue
            ctx.count('audit:suppfunc:reparsed')
            if abs(got2 - want2) > 1e-5 * max(1.0, abs(want2)):
                ctx.violation('after parsing the box %s into the domain object that held %s, suppfunc(%s) = %.9g, closed form %.9g'
                              % (boxes2, boxes, yv.tolist(), got2, want2), {'stream': 'reorder', 'case': case, 'y': yv.tolist()})
            inside2 = [0.5 * (boxes2[j][0] + boxes2[j][1]) if j in boxes2 else 0.0 for j in range(n)]
            edge = [boxes2[j][1] - 0.25 if j in boxes2 else 0.0 for j in range(n)]      # outside the old box, inside the new one
            for yy in (inside2, edge):
                m_ = conic_member(X, n, yy)
                if m_ is False:
                    ctx.violation('after parsing the box %s into an existing domain object, the point %s of it is rejected by the conic data'
                                  % (boxes2, yy), {'stream': 'reorder', 'case': case, 'point': yy})
                    break


def stream_empty(ctx, rng, N, given=None):
    import sageopt.coniclifts as cl
    from sageopt.symbolic.signomials import SigDomain
    for t in range(N if given is None else len(given)):
        if given is None:
            n = rng.randint(1, 3)
            j = rng.randrange(n)
            empty = rng.random() < 0.5
            lo = float(rng.randint(-2, 2))
        else:
            n, j, empty, lo = given[t]
        x = cl.Variable(shape=(n,), name='c15e_%d_%d' % (ctx.seed, t))
        cons = [x[j] >= lo + (1.0 if empty else -1.0), x[j] <= lo]
        if n > 1:
            cons.append(x[(j + 1) % n] <= 1.0)
        ctx.case({'stream': 'empty', 'n': n, 'j': j, 'empty': empty, 'lo': lo})
        ctx.count('stream:empty')
        try:
            SigDomain(n, coniclifts_cons=cons)
            raised = False
        except RuntimeError:
            raised = True
        except Exception as e:  # noqa: BLE001
            ctx.violation('constructing a SigDomain raised %s' % type(e).__name__, {'stream': 'empty', 'n': n, 'j': j, 'empty': empty, 'lo': lo})
            continue
        if raised != empty:
            ctx.violation('emptiness: the domain {x_%d >= %g, x_%d <= %g} is %s but the constructor %s'
                          % (j, lo + (1.0 if empty else -1.0), j, lo, 'empty' if empty else 'nonempty', 'raised' if raised else 'accepted it'),
                          {'stream': 'empty', 'n': n, 'j': j, 'empty': empty, 'lo': lo})


def run(ctx):
    rng = ctx.rng
    ctx.lean = common.lean_check('C15')
    quick = ctx.quick()
    common.run_regressions(ctx, 'C15', recheck)
    stream_infer(ctx, rng, 150 if quick else 1200)
    stream_reorder(ctx, rng, 60 if quick else 500)
    stream_empty(ctx, rng, 16 if quick else 100)
    if (not ctx.lean.ok or ctx.disagreements) and not ctx.violations:
        common.broken_report(ctx, 'pointwise audits (constraints vs kept constraints vs conic data) found no failing input')
    return ctx.finish(
        level='proof',
        rule='random signomial / polynomial constraint lists (one positive term, arbitrary signs, all positive; 1..4 terms; two-term equalities) '
             'through infer_domain; domains from box / exp / norm / abs / equality coniclifts constraints with absent components; points kept '
             '1e-3 from the boundary; non-trivial = at least one constraint; distinct = distinct JSON',
        trusted=TRUSTED, assumptions=ASSUME)


def recheck(r):
    """execute the stored input of a violation again; the violation it (still) shows, or None"""
    import random
    ctx, rng = common.RecCtx(), random.Random(0)
    k = r.get('stream')
    if k == 'infer':
        stream_infer(ctx, rng, 0, given=[r['case']], pinned=r.get('point'))
    elif k == 'reorder':
        cseed = r.get('cseed', (r.get('case') or {}).get('cseed'))
        if cseed is not None:
            stream_reorder(ctx, rng, 0, seeds=[cseed])
    elif k == 'empty':
        stream_empty(ctx, rng, 0, given=[(r['n'], r['j'], r['empty'], r['lo'])])
    return ctx.first()


def replay(obj):
    print('what:', obj['what'])
    print(common.canon_json(obj['replay'])[:1500])
    return 1
