"""
C04 -- constrained signomial relaxations bound the constrained minimum; the Lagrangian identity.

Model: lean/SageoptModel/Model/Relax.lean (hierarchyEk, qFold, makeLagrangian); theorems: Props/C04.lean.
Tie (structure): random (f, gts, eqs, p, q) -> the real make_sig_lagrangian; the q-fold constraint lists (as sets), the multiplier
exponents alpha_hat and the Lagrangian (exponent rows sorted; every coefficient as its affine form in gamma and the multiplier
coefficients) are compared exactly with the model.
Oracle: the identity L = f - gamma - sum s_g g - sum z_h h checked on the real Lagrangian by assigning random rational values to
the Variables (exact reference over fractions); audit: solved relaxations vs f at sampled feasible points, primal <= dual.
"""
import itertools
import math
from fractions import Fraction as F

import numpy as np

import common
import relaxmodel as rm
import sigtree as st
from common import frac_str, run_driver

TRUSTED = [
    'Lean 4.33.0 kernel; axioms of every theorem in Props/C04*.lean within {propext, Classical.choice, Quot.sound}',
    'harness/relaxmodel.py, harness/props/c04.py (matching of the code\'s set-ordered multipliers to the model\'s list order by their constraint)',
    'ECOS in the audit stream only',
]
ASSUME = [
    'strong duality is observed, not proved (partial)',
    'the code collects q-fold products in a Python set: their order is unspecified and compared as a set',
]


def gen_tenths_case(rng):
    """exponents k/10 (their float sums are not the floats of their sums) with p = 1: the multipliers' exponents are sums of rows"""
    n = 1
    def rows(m):
        out, seen = [], set()
        while len(out) < m:
            r = (F(rng.randint(-9, 9), 10),)
            if r not in seen:
                seen.add(r)
                out.append(list(r))
        return out
    fr_ = rows(3)
    f = rm.sig_leaf(fr_, [F(rng.choice([1, 2, 3])) for _ in fr_])
    gr = [[F(0)]] + rows(2)
    g = rm.sig_leaf(gr, [F(rng.randint(3, 6))] + [F(-rng.randint(1, 2)) for _ in gr[1:]])
    return {'f': f, 'gts': [g], 'eqs': [], 'p': 1, 'q': 1, 'ell': 0, 'slacks': rng.random() < 0.5, 'infer': False}


def gen_twin_case(rng):
    """two exponents of f that differ in the 5th decimal only (2.5 and 2.50001: distinct on the 7-decimal grid, relatively very
    close), with opposite signs: the dual form matches coefficients to moment variables by exponent"""
    a = F(rng.choice([2, 3, 5]), rng.choice([1, 2]))
    b = a + F(rng.choice([1, 2]), 10 ** 5)
    k = rng.choice([3, 4])
    f = rm.sig_leaf([[a], [b], [F(-1)]], [F(-k), F(k + 1), F(1)])
    g = rm.sig_leaf([[F(0)], [F(1)]], [F(rng.choice([5, 10])), F(-1)])
    return {'f': f, 'gts': [g], 'eqs': [], 'p': rng.choice([0, 1]), 'q': 1, 'ell': 0, 'slacks': rng.random() < 0.5, 'infer': False}


def plant_tiny(rng, case):
    """a genuine coefficient of size 2^-45 (3e-14; exact in binary) on a term of its own in f or in a constraint: part of the function"""
    leaf = rng.choice([case['f']] + case['gts'])
    n = leaf['n']
    row = [frac_str(F(rng.randint(3, 4))) for _ in range(n)]
    if row not in leaf['alpha']:
        leaf['alpha'].append(row)
        leaf['c'].append(frac_str(F(rng.choice([1, -1, 3]), 2 ** 45)))
        case['tiny'] = True
    return case


def gen_q2_case(rng):
    """inequalities AND an equality with q = 2: the folded lists are longer than the given ones, and which multipliers are
    sign-constrained (those of folded inequalities only) decides whether the value is a bound"""
    if rng.random() < 0.7:
        # (y - a)^2 over y >= b with b < a (y = e^x): the minimum 0 is attained INSIDE the feasible set, where g and g*g are positive
        a, b = F(rng.choice([2, 3])), F(rng.choice([1, F(1, 2)]))
        f = rm.sig_leaf([[F(2)], [F(1)], [F(0)]], [F(1), -2 * a, a * a])
        gts = [rm.sig_leaf([[F(1)], [F(0)]], [F(1), -b])]
        if rng.random() < 0.5:
            gts.append(rm.sig_leaf([[F(0)], [F(1)]], [F(8), F(-1)]))
        return {'f': f, 'gts': gts, 'eqs': [], 'p': 0, 'q': 2, 'ell': 0, 'slacks': rng.random() < 0.5, 'infer': False, 'q2': True}
    n = rng.randint(1, 2)
    f = rm.gen_sig(rng, n=n, m=rng.randint(2, 4))
    rows = [[F(0)] * n] + [[F(rng.randint(0, 2)) for _ in range(n)] for _ in range(rng.randint(1, 2))]
    rows = [list(r) for r in dict.fromkeys(tuple(r) for r in rows)]
    gts = [rm.sig_leaf(rows, [F(rng.randint(3, 9))] + [F(-rng.randint(1, 2)) for _ in rows[1:]])]
    if rng.random() < 0.4:
        gts.append(rm.sig_leaf([[F(0)] * n, [F(1)] + [F(0)] * (n - 1)], [F(rng.randint(2, 5)), F(-1)]))
    eqs = [rm.sig_leaf([[F(0)] * n, [F(1)] + [F(0)] * (n - 1)], [F(rng.choice([1, 2])), F(-1)])]
    return {'f': f, 'gts': gts, 'eqs': eqs, 'p': 0, 'q': 2, 'ell': 0, 'slacks': rng.random() < 0.5, 'infer': False, 'q2': True}


def gen_eq_posy_case(rng):
    """a domain that absorbs a monomial EQUATION and a posynomial inequality with three terms: the inferred X lists a '0' cone before its
    exponential cones; relaxations over it in both forms"""
    a, b = rng.choice([5, 6, 8]), rng.choice([2, 3])
    f = rm.sig_leaf([[F(-1), F(0)], [F(0), F(-1)], [F(1), F(1)]], [F(rng.choice([1, 2])), F(rng.choice([1, 3])), F(1, rng.choice([1, 2]))])
    g = rm.sig_leaf([[F(0), F(0)], [F(1), F(0)], [F(0), F(1)]], [F(a), F(-1), F(-1)])            # a - e^{x0} - e^{x1} >= 0
    h = rm.sig_leaf([[F(0), F(0)], [F(1), F(0)]], [F(b), F(-1)])                                # b - e^{x0} = 0
    return {'f': f, 'gts': [g], 'eqs': [h], 'p': 0, 'q': 1, 'ell': 0, 'slacks': rng.random() < 0.5, 'infer': True, 'fam': 'eq+posy'}


def gen_kept_case(rng):
    """X inferred from a box while one inequality with two positive terms stays in the Lagrangian, multipliers of level p = 1: the
    multiplier cones of the dual are conditional cones over affine images of v"""
    f = rm.sig_leaf([[F(1), F(0)], [F(0), F(1)], [F(-1), F(-1)]], [F(1), F(rng.choice([1, 2])), F(rng.choice([1, 2]))])
    box = []
    for i in range(2):
        e = [F(1) if j == i else F(0) for j in range(2)]
        box.append(rm.sig_leaf([[F(0), F(0)], e], [F(4), F(-1)]))
        box.append(rm.sig_leaf([e, [F(0), F(0)]], [F(1), F(-1, 4)]))
    kept = rm.sig_leaf([[F(0), F(2)], [F(1), F(0)], [F(0), F(0)]], [F(1), F(1), F(-rng.choice([7, 8, 19]), 2)])      # e^{2 x1} + e^{x0} >= 3.5 .. 9.5
    return {'f': f, 'gts': box + [kept], 'eqs': [], 'p': 1, 'q': 1, 'ell': 0, 'slacks': False, 'infer': True, 'fam': 'kept'}


def gen_case(rng):
    r0 = rng.random()
    if r0 < 0.2:
        return gen_tenths_case(rng)
    if r0 < 0.44 and r0 >= 0.32:
        return gen_q2_case(rng)
    if r0 < 0.3:
        return gen_twin_case(rng)
    if r0 < 0.32:
        return plant_tiny(rng, gen_case(rng))
    n = rng.randint(1, 2)
    f = rm.gen_sig(rng, n=n, m=rng.randint(2, 4))
    gts, eqs = [], []
    for _ in range(rng.randint(0, 2)):
        # g(x) = c0 - sum of positive monomials  (a posynomial constraint)  or a general small signomial
        if rng.random() < 0.7:
            rows = [[F(0)] * n] + [[F(rng.randint(0, 2)) for _ in range(n)] for _ in range(rng.randint(1, 2))]
            rows = [list(r) for r in dict.fromkeys(tuple(r) for r in rows)]
            c = [F(rng.randint(3, 9))] + [F(-rng.randint(1, 2)) for _ in rows[1:]]
            gts.append(rm.sig_leaf(rows, c))
        else:
            gts.append(rm.gen_sig(rng, n=n, m=rng.randint(1, 3)))
    if rng.random() < 0.35:
        rows = [[F(0)] * n, [F(1)] + [F(0)] * (n - 1)]
        eqs.append(rm.sig_leaf(rows, [F(rng.choice([1, 2])), F(-1)]))
    q = rng.choice([1, 1, 2])
    if gts and rng.random() < 0.3:
        # the same constraint listed twice (two separately built, equal objects): at q = 1 each copy has its own multiplier
        gts.insert(rng.randint(0, len(gts)), dict(rng.choice(gts)))
        q = 1
    return {'f': f, 'gts': gts, 'eqs': eqs, 'p': rng.choice([0, 0, 1]), 'q': q, 'ell': rng.choice([0, 0, 1]),
            'slacks': rng.random() < 0.5, 'infer': rng.random() < 0.4}


def r7(x):
    """a float exponent as the exact rational on the 10^-7 grid it stands for"""
    return F(round(F(float(x)) * 10 ** 7), 10 ** 7)


def sig_key(g):
    """canonical key of a numeric Signomial: sorted (row, coeff) pairs, zeros dropped"""
    d = {}
    for r, c in zip(np.asarray(g.alpha, dtype=float).tolist(), np.asarray(g.c, dtype=float).tolist()):
        k = tuple(r7(x) for x in r)
        d[k] = d.get(k, F(0)) + F(c)
    return tuple(sorted((k, v) for k, v in d.items() if v != 0))


def model_key(s):
    d = {}
    for r, c in zip(s['alpha'], s['c']):
        k = tuple(F(x) for x in r)
        d[k] = d.get(k, F(0)) + F(c)
    return tuple(sorted((k, v) for k, v in d.items() if v != 0))


def lagrangian_real(case):
    from sageopt.relaxations.sage_sigs import make_sig_lagrangian
    f = st.build(case['f'])
    gts = [st.build(g) for g in case['gts']]
    eqs = [st.build(g) for g in case['eqs']]
    L, ineq, eq, gamma = make_sig_lagrangian(f, gts, eqs, case['p'], case['q'])
    return f, gts, eqs, L, ineq, eq, gamma


def identity_oracle(case, rng, f, L, ineq, eq, gamma):
    """L(x) = f - gamma - sum s_g g - sum z_h h as coefficient dictionaries, under a random rational assignment"""
    from sageopt.coniclifts.base import Expression
    # every Variable the Lagrangian depends on is gamma or the coefficient vector of a RETURNED multiplier (a multiplier that is in L
    # but not in the returned pairs is never constrained by the relaxation built from them)
    if isinstance(L.c, Expression):
        returned = {id(gamma)} | {id(v) for s, _ in list(ineq) + list(eq) for v in s.c.variables()}
        stray = [v.name for v in L.c.variables() if id(v) not in returned]
        if stray:
            return ('the Lagrangian depends on the Variable %s, which is neither gamma nor a coefficient of a returned multiplier (%d pairs '
                    'returned for %d + %d constraints)' % (stray[0][:40], len(ineq) + len(eq), len(case['gts']), len(case['eqs'])))
    gv = F(rng.randint(-3, 3), 2)
    gamma.value = np.array(float(gv))
    ref = {}

    def addto(d, sig_dict, scale=F(1)):
        for k, v in sig_dict.items():
            d[k] = d.get(k, F(0)) + scale * v
    fd = dict(sig_key(f))
    addto(ref, fd)
    zero = tuple([F(0)] * f.n)
    ref[zero] = ref.get(zero, F(0)) - gv
    for (s, g) in list(ineq) + list(eq):
        vals = [F(rng.randint(-2, 3), 2) for _ in range(s.m)]
        s.c.value = np.array([float(v) for v in vals])
        sd = {tuple(r7(x) for x in r): v for r, v in zip(np.asarray(s.alpha, dtype=float).tolist(), vals)}
        prod = st.ref_mul(sd, dict(sig_key(g)))
        addto(ref, prod, F(-1))
    ref = {k: v for k, v in ref.items() if v != 0}
    cval = L.c.value if isinstance(L.c, Expression) else np.asarray(L.c, dtype=float)
    got = {}
    for r, v in zip(np.asarray(L.alpha, dtype=float).tolist(), np.asarray(cval, dtype=float).tolist()):
        k = tuple(r7(x) for x in r)
        got[k] = got.get(k, F(0)) + F(v)
    got = {k: v for k, v in got.items() if v != 0}
    if got != ref:
        diff = {str(tuple(map(str, k))): (str(got.get(k)), str(ref.get(k))) for k in set(got) | set(ref) if got.get(k) != ref.get(k)}
        return 'the Lagrangian differs from f - gamma - sum s_g g - sum z_h h under a random assignment: (got, expected) = %s' % dict(list(diff.items())[:3])
    return None


def audit_case(ctx, rng, c, pinned=None):
    import sageopt as so
    n = c['f']['n']
    f = st.build(c['f'])
    gts = [st.build(g) for g in c['gts']]
    eqs = [st.build(g) for g in c['eqs']]
    X = None
    try:
        if c['infer'] and (gts or eqs):
            X = so.infer_domain(f, gts, eqs)
        vals = {}
        for form in ('primal', 'dual'):
            kw = {'p': c['p'], 'q': c['q'], 'ell': c['ell']}
            if form == 'dual':
                kw['slacks'] = c['slacks']
            # the Lagrangian the Problem exposes (metadata['lagrangian'], where users and solution recovery read it) satisfies the
            # identity with the builder's own gamma and multipliers (captured by wrapping make_sig_lagrangian from here), at
            # every level ell
            import sageopt.relaxations.sage_sigs as ss
            captured, orig_mk = [], ss.make_sig_lagrangian

            def cap(*a, **k):
                out = orig_mk(*a, **k)
                captured.append(out)
                return out
            ss.make_sig_lagrangian = cap
            try:
                prob = so.sig_constrained_relaxation(f, gts, eqs, X=X, form=form, **kw)
            finally:
                ss.make_sig_lagrangian = orig_mk
            if captured and 'lagrangian' in prob.metadata:
                L_, ineq_, eq_, gamma_ = captured[-1]
                why = identity_oracle(c, rng, f, prob.metadata['lagrangian'], ineq_, eq_, gamma_)
                ctx.count('audit:metadata-lagrangian')
                if why:
                    ctx.violation('Lagrangian identity (metadata[\'lagrangian\'] of the %s problem, ell = %d): %s' % (form, c['ell'], why),
                                  {'stream': 'audit', 'form': form, 'case': c})
            vals[form] = rm.solve_ecos(prob)
    except Exception as e:  # noqa: BLE001
        ctx.incon('audit: builder raised %s' % type(e).__name__)
        return
    ctx.case({'stream': 'audit', 'case': c})
    ctx.count('stream:audit')
    feas = []
    for x in rm.box_points(rng, n, None, 200) + ([list(pinned)] if pinned else []):
        if all(g(np.array(x)) >= 0 for g in gts) and all(abs(h(np.array(x))) <= 1e-9 for h in eqs):
            feas.append(x)
    if eqs:     # points on the equality constraint x_0 = log(c) by construction of the generator
        x0 = math.log(float(F(c['eqs'][0]['c'][0])))
        for x in rm.box_points(rng, n, None, 60):
            y = [x0] + list(x[1:])
            if all(g(np.array(y)) >= 0 for g in gts):
                feas.append(y)
    if not feas:
        return
    fmin = min(float(f(np.array(x))) for x in feas)
    for form, (s, v) in vals.items():
        if s != 'solved':
            ctx.incon('audit: %s status %s' % (form, s))
            continue
        if math.isfinite(v) and v > fmin + 1e-5 * max(1.0, abs(fmin)):
            x = min(feas, key=lambda z: float(f(np.array(z))))
            ctx.violation('bound: the %s constrained relaxation value %.8g exceeds f(x) = %.8g at the feasible point %s' % (form, v, fmin, x),
                          {'stream': 'audit', 'form': form, 'case': c, 'point': x})
        if v == math.inf:
            ctx.violation('bound: the %s relaxation reports +inf although a feasible point %s exists' % (form, feas[0]),
                          {'stream': 'audit', 'form': form, 'case': c})
    if all(k in vals and vals[k][0] == 'solved' for k in ('primal', 'dual')):
        vp, vd = vals['primal'][1], vals['dual'][1]
        rows_ = [[F(x) for x in r] for r in c['f']['alpha']]
        near = any(max(abs(a_ - b_) for a_, b_ in zip(r1, r2)) < F(1, 1000) for i, r1 in enumerate(rows_) for r2 in rows_[i + 1:])
        if vp > vd + 1e-5 * max(1.0, abs(vd)) and not (math.isinf(vp) and math.isinf(vd)) and near:
            # (two exponents of f closer than 1e-3: the dual is too badly conditioned for its value to be compared, see DESIGN 8.4 / C03)
            ctx.incon('audit: primal above dual on an instance with near-duplicate exponents (left to the conditioning of the dual)')
        elif vp > vd + 1e-5 * max(1.0, abs(vd)) and not (math.isinf(vp) and math.isinf(vd)):
            ctx.violation('weak duality: primal value %.8g exceeds dual value %.8g' % (vp, vd), {'stream': 'audit', 'case': c})


def run(ctx):
    rng = ctx.rng
    ctx.lean = common.lean_check('C04')
    quick = ctx.quick()
    common.run_regressions(ctx, 'C04', recheck)
    N = 60 if quick else 400
    cases = [gen_eq_posy_case(rng) for _ in range(2 if quick else 10)] + [gen_kept_case(rng) for _ in range(1 if quick else 6)]
    cases += [gen_case(rng) for _ in range(N)]
    cases += [gen_q2_case(rng) for _ in range(4 if quick else 30)]          # (never left to the luck of the draw)
    reals = []
    for c in cases:
        try:
            reals.append(lagrangian_real(c))
        except Exception as e:  # noqa: BLE001
            reals.append({'raises': type(e).__name__, 'msg': str(e)[:120]})
    # phase 1: the model's q-fold lists
    fold_lines = []
    for c in cases:
        fold_lines.append({'op': 'relax.qfold', 'n': c['f']['n'], 'cons': [st.strip_types(g) for g in c['gts']], 'q': c['q']})
        fold_lines.append({'op': 'relax.qfold', 'n': c['f']['n'], 'cons': [st.strip_types(g) for g in c['eqs']], 'q': c['q']})
    folds = run_driver(fold_lines)
    lag_lines, plans = [], []
    for k, (c, real) in enumerate(zip(cases, reals)):
        mg, me = folds[2 * k]['fold'], folds[2 * k + 1]['fold']
        ctx.case({'stream': 'lagrangian', 'case': c}, nontrivial=bool(c['gts'] or c['eqs']))
        ctx.count('stream:lagrangian')
        ctx.count('pq:%d,%d' % (c['p'], c['q']))
        if isinstance(real, dict):
            ctx.disagreement('lagrangian', c, real, {'fold_gts': mg})
            plans.append(None)
            continue
        f, gts, eqs, L, ineq, eq, gamma = real
        # q-fold lists as sets
        rg = sorted(sig_key(g) for _, g in ineq)
        re_ = sorted(sig_key(g) for _, g in eq)
        if rg != sorted(model_key(s) for s in mg) or re_ != sorted(model_key(s) for s in me):
            ctx.disagreement('qfold', c, {'gts': [str(x) for x in rg], 'eqs': [str(x) for x in re_]},
                             {'gts': [str(model_key(s)) for s in mg], 'eqs': [str(model_key(s)) for s in me]})
            plans.append(None)
            why = identity_oracle(c, rng, f, L, ineq, eq, gamma)
            if why:
                ctx.violation('Lagrangian identity: ' + why, {'stream': 'lagrangian', 'case': c})
            continue
        # numbering: gamma -> 0, then the multiplier coefficients in the MODEL's order of folded constraints
        id2k = {int(gamma.scalar_variable_ids[0]): 0}
        nxt = 1
        s_ids, z_ids = [], []
        used = set()          # two folded constraints may be the same function: each multiplier is matched once
        for lst, out, pairs in ((mg, s_ids, ineq), (me, z_ids, eq)):
            for s_model in lst:
                key = model_key(s_model)
                sg = next(s for s, g in pairs if sig_key(g) == key and id(s) not in used)
                used.add(id(sg))
                ids = []
                for sid in sg.c.scalar_variable_ids:
                    id2k[int(sid)] = nxt
                    ids.append(nxt)
                    nxt += 1
                out.append(ids)
        lag_lines.append({'op': 'relax.lagrangian', 'f': st.strip_types(c['f']), 'gts': [st.strip_types(g) for g in c['gts']],
                          'eqs': [st.strip_types(g) for g in c['eqs']], 'p': c['p'], 'q': c['q'], 'gamma': 0, 's_ids': s_ids, 'z_ids': z_ids})
        plans.append(id2k)
    mouts = iter(run_driver(lag_lines))
    for c, real, id2k in zip(cases, reals, plans):
        if id2k is None:
            continue
        mo = next(mouts)
        if isinstance(mo, dict) and 'error' in mo:
            raise common.DriverError(mo['error'])
        f, gts, eqs, L, ineq, eq, gamma = real
        from sageopt.coniclifts.base import Expression
        cells = [rm.lin_cell(se, id2k) for se in (L.c.flat if isinstance(L.c, Expression) else L.c)]
        alpha, (cells,) = rm.sort_rows(rm.mat_json7(L.alpha), cells)
        io = {'alpha': alpha, 'c': cells, 'alpha_hat': sorted(rm.mat_json7(ineq[0][0].alpha)) if ineq else None}
        malpha, (mc,) = rm.sort_rows(mo['alpha'], mo['c'])
        m = {'alpha': malpha, 'c': mc, 'alpha_hat': sorted(mo['alpha_hat']) if ineq else None}
        if common.canon_json(io) != common.canon_json(m):
            ctx.disagreement('lagrangian', c, io, m)
        else:
            ctx.traces_validated += 1
        why = identity_oracle(c, rng, f, L, ineq, eq, gamma)
        if why:
            ctx.violation('Lagrangian identity: ' + why, {'stream': 'lagrangian', 'case': c})
    # ---- audit of the solved relaxations
    naud = 25 if quick else 200
    for c in cases[:naud] + [c for c in cases[naud:] if c.get('q2')][:(4 if quick else 30)]:
        audit_case(ctx, rng, c)
    if (not ctx.lean.ok or ctx.disagreements) and not ctx.violations:
        common.broken_report(ctx, 'Lagrangian identity and bound audits found no failing input among %d cases' % N)
    return ctx.finish(
        level='proof',
        rule='random (f, gts, eqs) with posynomial and general constraints, (p, q, ell) in {0,1}x{1,2}x{0,1}, slacks in {F,T}, X none or '
             'inferred; Lagrangian compared at representation level and by random assignments; audit on sampled feasible points; '
             'non-trivial = at least one constraint; distinct = distinct JSON',
        trusted=TRUSTED, assumptions=ASSUME)


def recheck(r):
    """execute the stored input of a violation again; the violation it (still) shows, or None"""
    import random
    ctx, rng = common.RecCtx(), random.Random(0)
    c = r['case']
    if r.get('stream') == 'audit':
        audit_case(ctx, rng, c, pinned=r.get('point'))
        return ctx.first()
    if r.get('stream') == 'lagrangian':
        f, gts, eqs, L, ineq, eq, gamma = lagrangian_real(c)
        for _ in range(3):
            why = identity_oracle(c, rng, f, L, ineq, eq, gamma)
            if why:
                return 'Lagrangian identity: ' + why
    return None


def replay(obj):
    print('what:', obj['what'])
    print(common.canon_json(obj['replay'])[:1500])
    return 1
