"""
C01 -- a satisfied primal SAGE constraint certifies nonnegativity on X.

Model: lean/SageoptModel/Model/Sage.lean (ExpCoverHelper, primal rows); theorems: Props/C01.lean.
Tie (stream A, structural): random (alpha, c-shape, X incl. lifted coordinates, covers, settings) -> the real
PrimalSageCone, its cover helper, the ids of its auxiliary Variables and its compiled rows, compared exactly with the
model (rows multiplied by e are flagged by the model and divided by e before the comparison).
Audit (stream B): real problems solved with ECOS; the exposed c, age_vectors are plugged into the certificate facts
(sum <= c, one negative entry, each AGE function >= 0 on sampled points of X, f >= 0 on X) with residual accounting.
"""
import numpy as np

import clmodel as clm
import common
import sagemodel as sm
from common import run_driver
from fractions import Fraction as F

TRUSTED = [
    'Lean 4.33.0 kernel; axioms of every theorem in Props/C01*.lean within {propext, Classical.choice, Quot.sound}',
    'harness/sagemodel.py (instance generator, serialisation of the constraint object incl. the ids of its auxiliary Variables)',
    'Driver.lean / Drv/Sage.lean glue',
    'ECOS only in the audit stream (statuses other than solved are inconclusive; tolerances derived from residuals)',
]
ASSUME = [
    'exact sigma: "up to solver tolerance" is outside the theorem; the audit turns residuals into an explicit delta',
    'kernel_basis: soundness needs only mat @ B = 0, audited per instance (numerical SVD)',
    'answers of the optimisation-based presolve are inputs of the model (any answer is sound)',
]


def ill_scaled(rng, inst, p=0.1):
    """a change of units that leaves the exponent columns six orders of magnitude apart (column j times 2^11 or 2^-10, exact in
    binary; the points of R^n are scaled the other way)"""
    if inst['X'] is not None or inst['n'] < 2 or rng.random() >= p:
        return inst
    ks = [rng.choice([11, -10, 0]) for _ in range(inst['n'])]
    ks[0], ks[1] = (11, -10) if rng.random() < 0.5 else (-10, 11)
    inst['alpha'] = [[common.frac_str(F(x) * F(2) ** k) for x, k in zip(r, ks)] for r in inst['alpha']]
    inst['xscale'] = [float(F(2) ** (-k)) for k in ks]
    return inst


def tiny_units(rng, inst, p=0.08):
    """a change of units that makes every exponent a small multiple of 4e-7 (on the 7-decimal grid the constructor keeps): rank decisions
    on the exponent differences (kernel_basis) must not depend on the unit"""
    if inst['X'] is not None or inst.get('xscale') or rng.random() >= p:
        return inst
    sc = F(4, 10 ** 7)
    inst['alpha'] = [[common.frac_str(F(x) * sc) for x in r] for r in inst['alpha']]
    inst['xscale'] = [float(1 / sc)] * inst['n']
    inst['tiny'] = True
    return inst


def exact_rank(rows):
    """rank of a rational matrix by exact elimination"""
    A = [[F(x) for x in r] for r in rows]
    rk, col, ncols = 0, 0, len(A[0]) if A else 0
    while rk < len(A) and col < ncols:
        piv = next((r for r in range(rk, len(A)) if A[r][col] != 0), None)
        if piv is None:
            col += 1
            continue
        A[rk], A[piv] = A[piv], A[rk]
        for r in range(rk + 1, len(A)):
            if A[r][col] != 0:
                f = A[r][col] / A[rk][col]
                A[r] = [a - f * b_ for a, b_ in zip(A[r], A[rk])]
        rk += 1
        col += 1
    return rk


def basis_hypothesis(inst, b):
    """the hypothesis `primal_sound` carries for kernel-basis witnesses (mat @ B = 0), and the one `kernel_basis_equiv` carries
    (range B = ker mat): checked on the basis the real constructor computed; returns a description of what fails, or None"""
    con = b.con
    alpha = [[F(x) for x in r] for r in inst['alpha']]
    for i, B in getattr(con, '_nu_bases', {}).items():
        cov = [j for j, bit in enumerate(np.asarray(con.ech.covers[i]).tolist()) if bit]
        B = np.asarray(B, dtype=float)
        if not cov or B.size == 0:
            continue
        mat = [[alpha[j][k] - alpha[i][k] for j in cov] for k in range(inst['n'])]          # n x |cover|
        matf = np.array([[float(x) for x in r] for r in mat])
        scale = float(np.max(np.abs(matf))) * max(1.0, float(np.max(np.abs(B))))
        resid = float(np.max(np.abs(matf @ B))) if matf.size else 0.0
        nullity = len(cov) - exact_rank(mat)
        if resid > 1e-9 * max(scale, 1e-300) or B.shape[1] != nullity:
            return ('kernel basis of AGE cone %d: max |mat @ B| = %.3e (entries of mat up to %.3e), %d basis vectors for a kernel of dimension %d'
                    % (i, resid, float(np.max(np.abs(matf))), B.shape[1], nullity))
    return None


def structural(ctx, rng, count, all32):
    cases, lines, outs = [], [], []
    for k in range(count):
        inst = tiny_units(rng, ill_scaled(rng, sm.gen_instance(rng, primal=True)))
        setts = list(sm.all_settings()) if all32 else [sm.DEFAULTS] + [sm.rand_settings(rng) for _ in range(3)]
        if inst.get('tiny') and not all32:
            setts[1] = dict(setts[1], kernel_basis=True)
        for s in setts:
            try:
                b = sm.build(inst, s)
            except Exception as e:  # noqa: BLE001
                # construction itself may reject (e.g. an AGE cone that reduces to the orthant with negative c_i)
                ctx.count('construct-raises:' + type(e).__name__)
                cases.append({'inst': inst, 'settings': s, 'construct_raises': type(e).__name__, 'msg': str(e)[:120]})
                lines.append(None)
                outs.append(None)
                continue
            if s['kernel_basis'] and inst['X'] is None:
                whyb = basis_hypothesis(inst, b)
                ctx.count('stream:kernel-basis-hypothesis')
                if whyb:
                    ctx.disagreement('kernel-basis hypothesis', {'inst': inst, 'settings': s}, {'basis': whyb}, {'basis': 'mat @ B = 0, range B = ker mat'})
            line = sm.model_line(inst, s, b)
            if not b.con.variables():
                ctx.count('skipped:constraint-without-variables')
                continue
            try:
                io = sm.impl_compile(b)
            except Exception as e:  # noqa: BLE001
                io = {'raises': type(e).__name__, 'msg': str(e)[:160]}
            cases.append({'inst': inst, 'settings': s})
            lines.append(line)
            outs.append(io)
    mouts = run_driver([l for l in lines if l is not None])
    it = iter(mouts)
    for c, line, io in zip(cases, lines, outs):
        ctx.case({'stream': 'structure', 'case': c}, nontrivial=len(c['inst']['alpha']) >= 2)
        ctx.count('stream:structure')
        ctx.count('X:' + ('none' if c['inst']['X'] is None else ('lifted' if c['inst']['X']['N'] > c['inst']['n'] else 'plain')))
        ctx.count('covers:' + c['inst']['cover_mode'])
        if line is None:
            continue
        mo = next(it)
        if isinstance(mo, dict) and 'error' in mo:
            raise common.DriverError(mo['error'])
        if 'raises' in io or 'raises' in mo:
            if ('raises' in io) != ('raises' in mo):
                ctx.disagreement('structure', c, io, mo)
            else:
                ctx.traces_validated += 1
            continue
        if not sm.systems_equal(io, mo):
            a, m = sm.canon_pair(io, mo)
            ctx.disagreement('structure', c, a, m)
        else:
            ctx.traces_validated += 1


def audit_instance(ctx, rng, inst, settings, direction=None):
    """the audit proper runs in a forked child (it calls the real Problem.solve; ECOS may crash on degenerate data)"""
    log = common.CtxLog(getattr(ctx, 'seed', 0))
    kind, res = common.forked(lambda: (_audit_instance(log, rng, inst, settings, direction), log.log), timeout=180)
    if kind == 'exception':
        raise RuntimeError('audit raised in the child: %s' % res)
    if kind != 'ok':
        ctx.incon('audit: solver %s' % kind)
        return None
    why, entries = res
    log.log = entries
    log.replay_into(ctx)
    return why


def _audit_instance(ctx, rng, inst, settings, direction=None):
    """optimise a linear function of the user variables s.t. c(w) in SAGE(alpha, X), |w| <= 3; check the exposed certificate.
    Returns violation or None"""
    import sageopt.coniclifts as cl
    alpha = np.array([[float(F(x)) for x in r] for r in inst['alpha']], dtype=float)
    m, n = alpha.shape
    b = sm.build(inst, settings)
    con = b.con
    cons = [con]
    if b.user is not None:
        cons.append(b.user <= 3)
        cons.append(b.user >= -3)
        obj = -1.0 * cl.sum(b.user) if direction is None else cl.Expression(np.array(direction, dtype=float)) @ b.user
    else:
        return None
    try:
        prob = cl.Problem(cl.MIN, obj, cons)
        st, val = prob.solve(solver='ECOS', verbose=False)
    except Exception as e:  # noqa: BLE001
        ctx.incon('audit: %s' % type(e).__name__)
        return None
    if st != 'solved' or not np.isfinite(val):
        ctx.incon('audit: status %s value %s' % (st, 'finite' if np.isfinite(val) else str(val)))
        return None
    c = con.c.value
    tol = 1e-5 * max(1.0, float(np.max(np.abs(c))))
    ages = {i: np.asarray(v.value, dtype=float) for i, v in con.age_vectors.items()}
    if m > 1 and len(con._nus) > 0:
        tot = sum(ages.values())
        if np.any(tot > c + tol):
            return 'the AGE vectors sum to %s which exceeds c = %s' % (tot.tolist(), c.tolist())
        for i, a in ages.items():
            neg = [j for j in range(m) if a[j] < -tol and j != i]
            if neg:
                return 'AGE vector %d has negative entries at %s besides its own index' % (i, neg)
    pts = sm.domain_points(inst['X'], n, rng, 40)
    if inst.get('xscale'):
        pts = [[v * sc for v, sc in zip(p, inst['xscale'])] for p in pts]
    ctx.count('audit:points', len(pts))
    for x in pts:
        ex = np.exp(alpha @ np.asarray(x))
        scale = float(np.max(np.abs(c) * ex)) + 1.0
        # the solver's absolute error on every coefficient (about 1e-6 here) is multiplied by e^{alpha.x}: a point where some
        # exponential is huge cannot be judged with a tolerance that ignores that factor
        noise = 1e-5 * float(np.sum(ex))
        if m > 1 and len(con._nus) > 0:
            for i, a in ages.items():
                if float(a @ ex) < -100 * tol * scale - noise:
                    return 'AGE function %d is %.3e < 0 at the point %s of X' % (i, float(a @ ex), x)
        fx = float(c @ ex)
        if fx < -100 * tol * scale - noise:
            return 'the certified signomial takes the value %.3e < 0 at the point %s of X (c = %s)' % (fx, x, c.tolist())
    return None


def run(ctx):
    rng = ctx.rng
    ctx.lean = common.lean_check('C01')
    common.run_regressions(ctx, 'C01', lambda r: recheck(r))
    quick = ctx.quick()
    structural(ctx, rng, 150 if quick else 600, all32=not quick)
    # targeted search: the instances on which model and implementation disagree are audited first, under several objectives
    seen = set()
    for d in ctx.disagreements[:60]:
        c = d['case']
        inst, s = c['inst'], c['settings']
        key = common.canon_json([inst, s])
        if key in seen or (inst['X'] is not None and inst['X']['N'] != inst['n']):
            continue
        seen.add(key)
        for k in range(16 if inst['nuser'] else 0):
            direction = None if k == 0 else [rng.choice([-1.0, 1.0, 0.5, -2.0, 0.0]) for _ in range(inst['nuser'])]
            try:
                why = audit_instance(ctx, rng, inst, s, direction)
            except Exception as e:  # noqa: BLE001
                ctx.incon('targeted audit construction: %s' % type(e).__name__)
                continue
            ctx.count('stream:audit-targeted')
            if why:
                ctx.violation('certificate: ' + why, {'stream': 'audit', 'inst': inst, 'settings': s, 'direction': direction})
                break
        if not ctx.violations:
            # the same exponents and settings with "-gamma" at one index and positive constants elsewhere, gamma maximised
            m_ = len(inst['alpha'])
            for i in [j for j in range(m_) for _ in range(3)]:
                var = dict(inst, nuser=1, c=[{'off': common.frac_str(F(rng.choice([1, 100, 2]), rng.choice([1, 100]))), 'co': []} for _ in range(m_)])
                var['c'][i] = {'off': '0', 'co': [[0, '-1']]}
                try:
                    why = audit_instance(ctx, rng, var, s, [-1.0])
                except Exception:  # noqa: BLE001
                    continue
                ctx.count('stream:audit-targeted')
                if why:
                    ctx.violation('certificate: ' + why, {'stream': 'audit', 'inst': var, 'settings': s, 'direction': [-1.0]})
                    break
        if len(ctx.violations) >= 3:
            break
    # audit stream
    naudit = 40 if quick else 300
    done = 0
    tries = 0
    while done < naudit and tries < naudit * 6:
        tries += 1
        inst = sm.gen_instance(rng, primal=True, m=rng.randint(3, 5))
        if inst['nuser'] == 0 or (inst['X'] is not None and inst['X']['N'] != inst['n']):
            continue
        inst = ill_scaled(rng, inst)
        s = sm.DEFAULTS if rng.random() < 0.5 else sm.rand_settings(rng)
        try:
            why = audit_instance(ctx, rng, inst, s)
        except Exception as e:  # noqa: BLE001
            ctx.incon('audit construction: %s' % type(e).__name__)
            continue
        done += 1
        ctx.case({'stream': 'audit', 'inst': inst, 'settings': s})
        ctx.count('stream:audit')
        if why:
            tags = []
            ctx.violation('certificate: ' + why, {'stream': 'audit', 'inst': inst, 'settings': s}, tags=tags)
    if (not ctx.lean.ok or ctx.disagreements) and not ctx.violations:
        common.broken_report(ctx, 'certificate audit of solved instances found no failing input among %d audited problems' % done)
    return ctx.finish(
        level='proof',
        rule='random exponent matrices (m <= 6, n <= 3, integer / half-integer / nonnegative-with-zero-row), coefficient vectors mixing '
             'constants of every sign and affine expressions, X in {none, polyhedral, second-order / exponential cone, lifted}, '
             'automatic / full / user covers, default + random settings (all 32 per instance in the thorough tier); audit: solved '
             'instances with certificate checks on sampled points of X; non-trivial = at least two terms; distinct = distinct JSON',
        trusted=TRUSTED, assumptions=ASSUME)


def replay(obj):
    import random
    r = obj['replay']
    print('what:', obj['what'])
    if r.get('stream') == 'audit':
        class C:
            def incon(self, *a):
                pass

            def count(self, *a):
                pass
        why = audit_instance(C(), random.Random(0), r['inst'], r['settings'], r.get('direction'))
        print('re-audit:', why or 'ok')
        return 1 if why else 0
    return 1


recheck = common.recheck_via_replay(replay)
