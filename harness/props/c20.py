"""
C20 -- Variables keep their identity: unique indices, faithful pickling.

Model: lean/SageoptModel/Model/Vars.lean (allocator state machine, sessions, unpickling order); theorems: Props/C20.lean.
Tie: random histories of {create (all shapes, symmetric or not, named or not), slice, clear_variable_indices, dump an object
graph, load it in the same or in a FRESH interpreter, solve a probe LP}.  The real operations run in forked children of a
pristine template process (harness/vars_worker.py), so a "fresh interpreter" really has a fresh allocator; ids, names,
generations, is_proper, allocator counters and the parent links after unpickling are compared with the model.
Oracle: duplicate ids among distinct Variables of one generation, improper parents, wrong probe optimum, duplicate Variable
names in Problems produced by the relaxation builders.
"""
import json
import os
import random
import subprocess
import sys

import math
import numpy as np

import common
from common import run_driver

TRUSTED = [
    'Lean 4.33.0 kernel; axioms of every theorem in Props/C20*.lean within {propext, Classical.choice, Quot.sound}',
    'harness/props/c20.py + harness/vars_worker.py (history generator; forked sessions from a pristine template process)',
    'CPython pickle (the order in which __setstate__ runs for the array objects of a pickled list is the list order)',
    'ECOS for the probe LP (value compared at 1e-6)',
]
ASSUME = [
    'names built from str(obj) contain object addresses, unique among live objects; builders keep those objects alive until the Problem is compiled',
]


class Template:
    """pool of fresh interpreter processes (one per session)"""

    def __init__(self, width=16):
        self.env = dict(os.environ)
        self.env['PYTHONDONTWRITEBYTECODE'] = '1'
        self.script = os.path.join(os.path.dirname(os.path.dirname(os.path.abspath(__file__))), 'vars_worker.py')
        self.idle = []
        for _ in range(width):
            self.idle.append(self.spawn())

    def spawn(self):
        return subprocess.Popen([sys.executable, self.script], stdin=subprocess.PIPE, stdout=subprocess.PIPE,
                                stderr=subprocess.DEVNULL, text=True, env=self.env)

    def session(self, ops, blobs):
        """returns (initial allocator state of the fresh session, outputs, blobs)"""
        p = self.idle.pop(0)
        self.idle.append(self.spawn())
        ready = p.stdout.readline()
        if not ready:
            raise common.DriverError('vars_worker died at start-up')
        start = json.loads(ready)['ready']
        p.stdin.write(json.dumps({'ops': ops, 'blobs': blobs}) + '\n')
        p.stdin.flush()
        line = p.stdout.readline()
        p.stdin.close()
        p.wait()
        if not line:
            raise common.DriverError('vars_worker died')
        r = json.loads(line)
        if 'fatal' in r:
            raise common.DriverError('vars_worker: ' + r['fatal'])
        return start, r['out'], r['blobs']

    def close(self):
        for p in self.idle:
            try:
                p.stdin.close()
                p.wait(timeout=10)
            except Exception:  # noqa: BLE001
                p.kill()


SHAPES = [[], [1], [2], [3], [4], [2, 2], [2, 3], [1, 2, 2]]


def gen_history(rng, maxops):
    ops = []
    live = []          # handles of live array objects in the current session: (h, proper, ndim, size)
    slots = []         # (slot, [meta of dumped objects])
    h = 0
    named = 0
    nops = rng.randint(3, maxops)
    for k in range(nops):
        r = rng.random()
        if r < 0.38 or not live:
            sym = rng.random() < 0.2
            shape = rng.choice([[2, 2], [3, 3]]) if sym else rng.choice(SHAPES)
            name = None if rng.random() < 0.25 else 'hv%d' % named
            named += 1
            ops.append({'k': 'create', 'shape': shape, 'name': name, 'sym': sym, 'h': h})
            live.append((h, True, len(shape), int(np.prod(shape)) if shape else 1))
            h += 1
        elif r < 0.5:
            cands = [t for t in live if t[1] and t[2] >= 1 and t[3] >= 2]
            if not cands:
                continue
            t = rng.choice(cands)
            if t[2] == 1:
                a = rng.randint(0, t[3] - 1)
                b = rng.randint(a + 1, t[3])
            else:
                a, b = rng.randint(0, 3), 0
            ops.append({'k': 'slice', 'of': t[0], 'a': a, 'b': b, 'h': h})
            live.append((h, False, 1, 1))
            h += 1
        elif r < 0.58:
            ops.append({'k': 'clear'})
        elif r < 0.72:
            # dump a graph: a proper Variable together with some of its slices, in a random order
            props = [t for t in live if t[1]]
            if not props:
                continue
            t = rng.choice(props)
            hs = [t[0]]
            # its slices
            for o in ops:
                if o['k'] == 'slice' and o['of'] == t[0] and any(l[0] == o['h'] for l in live) and rng.random() < 0.7:
                    hs.append(o['h'])
            rng.shuffle(hs)
            slot = 's%d' % len(slots)
            ops.append({'k': 'dump', 'hs': hs, 'slot': slot})
            slots.append((slot, [next(l for l in live if l[0] == x) for x in hs]))
        elif r < 0.86 and slots:
            slot, metas = rng.choice(slots)
            hs = list(range(h, h + len(metas)))
            ops.append({'k': 'load', 'slot': slot, 'hs': hs})
            for x, mt in zip(hs, metas):
                live.append((x, mt[1], mt[2], mt[3]))
            h += len(metas)
        elif r < 0.93 and slots:
            ops.append({'k': 'newsession'})
            live = []
        else:
            props = [t for t in live if t[1]]
            if len(props) >= 1:
                pick = rng.sample(props, min(len(props), rng.randint(1, 3)))
                ops.append({'k': 'solve', 'hs': [t[0] for t in pick], 'offs': [rng.randint(1, 9) for _ in pick],
                            'sizes': [t[3] for t in pick]})
    props = [t for t in live if t[1]]
    if props and rng.random() < 0.3:
        # the round trip across an index generation, spelled out: dump a Variable, start a new generation (clear, or a fresh
        # interpreter), load it back, create new Variables next to it (their indices start again at 0), probe
        t = rng.choice(props)
        slot = 's%d' % len(slots)
        ops.append({'k': 'dump', 'hs': [t[0]], 'slot': slot})
        if rng.random() < 0.6:
            ops.append({'k': 'clear'})
        else:
            ops.append({'k': 'newsession'})
            live = []
        ops.append({'k': 'load', 'slot': slot, 'hs': [h]})
        loaded = (h, True, t[2], t[3])
        h += 1
        fresh = []
        for _ in range(rng.randint(1, 2)):
            shape = rng.choice(SHAPES)
            ops.append({'k': 'create', 'shape': shape, 'name': 'hv%d' % named, 'sym': False, 'h': h})
            fresh.append((h, True, len(shape), int(np.prod(shape)) if shape else 1))
            named += 1
            h += 1
        if rng.random() < 0.5:
            # (a probe LP over ONE generation: the loaded Variable alone, or the new ones alone)
            pick = [loaded] if rng.random() < 0.5 else fresh
            ops.append({'k': 'solve', 'hs': [x[0] for x in pick], 'offs': [rng.randint(1, 9) for _ in pick], 'sizes': [x[3] for x in pick]})
    return ops


def run_real(tpl, ops):
    """executes the history; returns (outputs, ops annotated with the observed initial generation of every session)"""
    outs, blobs, seg = [], {}, []
    ops2 = []
    starts = []

    def flush():
        nonlocal blobs
        start, o, blobs = tpl.session(seg, blobs)
        starts.append(start)
        outs.extend(o)
        seg.clear()
    pending_new = []
    for op in ops:
        if op['k'] == 'newsession':
            flush()
            outs.append(None)           # filled below with the next session's initial allocator state
            pending_new.append(len(outs) - 1)
        else:
            seg.append(op)
    flush()
    # annotate: the model needs the (random) initial generation of every session as an input
    si = 0
    first = dict(starts[0])
    for op in ops:
        if op['k'] == 'newsession':
            si += 1
            ops2.append({'k': 'newsession', 'salt': starts[si]['gen']})
        else:
            ops2.append(op)
    for pos, st in zip(pending_new, starts[1:]):
        outs[pos] = {'alloc': st}
    return outs, ops2, first


def canon(op, o):
    if 'raises' in o:
        return {'raises': True}
    if op['k'] == 'load':
        return {'vars': o['vars'], 'links': sorted([list(x) for x in o['links']]), 'alloc': o['alloc']}
    return o


def oracle(ops, outs):
    """identity violations observable on the implementation alone"""
    live = {}           # handle -> info (current session)
    for k, (op, o) in enumerate(zip(ops, outs)):
        if op['k'] == 'newsession':
            live = {}
            continue
        if op['k'] == 'solve':
            gens = {live[hh]['gen'] for hh in op['hs'] if hh in live}
            if len(gens) > 1:
                if 'raises' not in o:
                    return 'step %d: a Problem mixing Variables of generations %s was compiled without error' % (k, sorted(gens))
                continue
        if 'raises' in o:
            if op['k'] in ('load', 'slice', 'dump', 'solve'):
                return 'step %d (%s) raised %s: %s' % (k, op['k'], o['raises'], o.get('msg', ''))
            continue
        if op['k'] == 'create':
            live[op['h']] = o['var']
        elif op['k'] == 'slice':
            par = live.get(op['of'])
            live[op['h']] = o['var']
            if par and not set(o['var']['ids']) <= set(par['ids']):
                return 'step %d: a slice refers to components %s that are not its parent\'s %s' % (k, o['var']['ids'], par['ids'])
        elif op['k'] == 'load':
            for hh, v in zip(op['hs'], o['vars']):
                live[hh] = v
            for sid, par in o['links']:
                if par is None or not o['vars'][par]['proper']:
                    if any(v['proper'] and sid in v['ids'] for v in o['vars']):
                        return ('step %d: after unpickling, scalar variable %d has parent %s instead of its proper Variable'
                                % (k, sid, 'None' if par is None else 'the improper slice #%d' % par))
        elif op['k'] == 'solve':
            want = float(sum(sz * off for sz, off in zip(op['sizes'], op['offs'])))
            # the same Variable object may be listed once only (generator picks distinct handles, but two handles can be two
            # loaded copies of one Variable: then the stronger bound wins) -> only check when names are distinct
            names = [live[hh]['name'] for hh in op['hs']]
            if len(set(names)) == len(names) and o.get('status') == 'solved':
                if abs(o['value'] - want) > 1e-5 * max(1.0, abs(want)):
                    return ('step %d: probe LP min sum(v) s.t. v >= off over Variables %s has optimum %s, expected %s (index collision)'
                            % (k, names, o['value'], want))
        # unique ids within a generation among proper Variables with different names
        seen = {}
        for hh, v in live.items():
            if not v['proper']:
                continue
            for sid in v['ids']:
                key = (v['gen'], sid)
                if key in seen and seen[key] != v['name']:
                    return ('step %d: Variables %r and %r of generation %d share the scalar index %d'
                            % (k, seen[key], v['name'], v['gen'], sid))
                seen[key] = v['name']
    return None


def builder_names(ctx, rng, count):
    """every Variable of a Problem produced by a relaxation builder has a distinct name"""
    import sageopt as so
    import sageopt.coniclifts as cl
    import pickle
    from collections import Counter
    probs = []
    y = so.standard_sig_monomials(2)
    x = so.standard_poly_monomials(2)
    for t in range(count):
        a, b, c = rng.randint(1, 3), rng.randint(1, 3), rng.randint(1, 4)
        f = y[0] ** a + y[1] ** b - c * y[0] * y[1] + rng.randint(0, 2)
        # two constraints of the same shape (2 terms), and one constraint given twice (two separate, equal objects)
        g = [3 - y[0] - y[1], y[0] - 0.1, y[1] - 0.2, y[0] - 0.1]
        p = x[0] ** (2 * a) + x[1] ** 2 - c * x[0] * x[1] + 1
        gp = [4 - x[0] ** 2 - x[1] ** 2, 1 - x[0] ** 2, 9 - x[1] ** 2]      # two constraints with n = 2, m = 2
        ell = rng.randint(0, 1)
        for form in ('primal', 'dual'):
            try:
                probs.append(('sig_relaxation', so.sig_relaxation(f, form=form, ell=ell)))
                # conditional constraints (a domain X): other compiled rows, other auxiliary Variables
                probs.append(('sig_relaxation over X', so.sig_relaxation(f, X=so.infer_domain(f, g[:3], []), form=form, ell=0)))
                probs.append(('sig_constrained_relaxation', so.sig_constrained_relaxation(f, g, [], form=form, p=rng.randint(0, 1), q=rng.randint(1, 2), ell=ell)))
                probs.append(('poly_relaxation', so.poly_relaxation(p, form=form, poly_ell=ell)))
                probs.append(('poly_constrained_relaxation', so.poly_constrained_relaxation(p, gp, [], form=form, p=rng.randint(0, 1), q=rng.randint(1, 2), ell=ell)))
                # the SAME constraint object listed twice (a list assembled from parts that share a constraint)
                probs.append(('sig_constrained_relaxation (one constraint object listed twice)',
                              so.sig_constrained_relaxation(f, [g[0], g[1], g[0]], [], form=form, p=rng.randint(0, 1), q=1, ell=0,
                                                            **({'slacks': True} if form == 'dual' else {}))))
                probs.append(('poly_constrained_relaxation (one constraint object listed twice)',
                              so.poly_constrained_relaxation(p, [gp[0], gp[1], gp[0]], [], form=form, p=0, q=1, ell=0,
                                                             **({'slacks': True} if form == 'dual' else {}))))
            except Exception as e:  # noqa: BLE001
                ctx.incon('builder raised %s' % type(e).__name__)
    bad = []
    for name, pr in probs:
        names = [v.name for v in pr.all_variables]
        ctx.case({'stream': 'builder-names', 'builder': name, 'nvars': len(names)})
        ctx.count('stream:builder-names')
        if len(set(names)) != len(names):
            dup = sorted({n for n in names if names.count(n) > 1})
            bad.append(('%s produced a Problem with duplicate Variable names %s' % (name, dup[:3]), {'builder': name}))
            continue
        # every Variable of the compiled Problem has exactly one index per component, distinct from all others
        seen_ids, why = {}, None
        for v in pr.all_variables:
            ids = [int(i) for i in v.scalar_variable_ids]
            if len(ids) != int(v.size) or len(set(ids)) != len(ids):
                why = 'Variable %s with %d components reports %d indices (%d distinct)' % (v.name, v.size, len(ids), len(set(ids)))
                break
            for i in ids:
                if i in seen_ids and seen_ids[i] != v.name:
                    why = 'index %d belongs to both %s and %s' % (i, seen_ids[i], v.name)
                    break
                seen_ids[i] = v.name
            if why:
                break
        if why:
            bad.append(('%s: after compiling, %s' % (name, why), {'builder': name}))
            continue
        # pickle round trip of the built Problem: the unpickled model compiles to the same system
        try:
            p2 = pickle.loads(pickle.dumps(pr))
            p3 = cl.Problem(p2.objective_sense, p2.objective_expr, p2.constraints)
            sig = lambda q: (tuple(q.A.shape), int(q.A.nnz), sorted(Counter((co.type, int(co.len)) for co in q.K).items()))  # noqa: E731
            if sig(p3) != sig(pr):
                bad.append(('%s: the Problem rebuilt from its unpickled constraints compiles to %s, the original to %s'
                            % (name, sig(p3), sig(pr)), {'builder': name}))
        except Exception as e:  # noqa: BLE001
            bad.append(('%s: pickle round trip + recompile raised %s: %s' % (name, type(e).__name__, str(e)[:80]), {'builder': name}))
    return bad


def stored_values_stream(ctx, rng, count, given=None):
    """a solved Problem is pickled AFTER the values its Variables carry have moved on (another Problem over the same Variables was
    solved, or values were assigned by hand): the round trip must preserve status, value and the stored `variable_values`"""
    import pickle
    import sageopt.coniclifts as cl
    bad = []
    for t in range(count if given is None else len(given)):
        if given is not None:
            n, lo = given[t]['n'], given[t]['lo']
        else:
            n = rng.randint(1, 3)
            lo = [rng.randint(-3, 3) for _ in range(n)]
        z = cl.Variable(shape=(n,), name='sv_z%d' % t)
        u = cl.Variable(shape=(2,), name='sv_u%d' % t)
        p1 = cl.Problem(cl.MIN, cl.sum(z) + u[0] + u[1], [z >= np.array(lo, dtype=float), u >= 1])
        st1, v1 = p1.solve(verbose=False)
        rep = {'n': n, 'lo': lo, 'mode': None}
        ctx.case({'stream': 'stored-values', 'n': n, 'lo': lo}, nontrivial=True)
        ctx.count('stream:stored-values')
        if st1 != 'solved':
            ctx.incon('stored-values: status %s' % st1)
            continue
        snap = {k: np.array(v, dtype=float).copy() for k, v in p1.variable_values.items()}
        mode = given[t]['mode'] if given is not None else rng.choice(['other-problem', 'assign', 'none'])
        rep['mode'] = mode
        if mode == 'other-problem':
            p2 = cl.Problem(cl.MIN, cl.sum(z), [z >= np.array(lo, dtype=float) + 10])
            p2.solve(verbose=False)
        elif mode == 'assign':
            z.value = np.zeros(n)
            u.value = np.array([7.0, 7.0])
        try:
            q = pickle.loads(pickle.dumps(p1))
        except Exception as e:  # noqa: BLE001
            bad.append(('pickling a solved Problem raised %s' % type(e).__name__, rep))
            continue
        if q.status != st1 or abs(float(q.value) - float(v1)) > 1e-9:
            bad.append(('a solved Problem (%s, %.9g) unpickles as (%s, %.9g)' % (st1, v1, q.status, q.value), rep))
            continue
        for k, v in snap.items():
            got = q.variable_values.get(k)
            if got is None or np.asarray(got, dtype=float).shape != v.shape or not np.allclose(np.asarray(got, dtype=float), v, atol=1e-9, equal_nan=True):
                bad.append(('after %s the stored value of %s in the unpickled Problem is %s; the Problem was solved with %s (value %.9g)'
                            % ({'other-problem': 'solving another Problem over the same Variables', 'assign': 'assigning other values to its Variables',
                                'none': 'nothing else'}[mode], k, None if got is None else np.asarray(got, dtype=float).tolist(), v.tolist(), v1), rep))
                break
    return bad


def atom_roundtrip_stream(ctx, rng, count, given=None):
    """Problems whose constraints contain nonlinear atoms (their epigraph Variables are created while compiling): every Variable that owns a
    column is listed and valued after the FIRST solve, and the Problem survives a pickle round trip followed by a recompile"""
    import pickle
    from collections import Counter
    import sageopt.coniclifts as cl
    from sageopt.coniclifts.operators.abs import abs as cl_abs
    bad = []
    for t in range(count if given is None else len(given)):
        if given is not None:
            g_ = given[t]
            n, a, kind, cvec, bnd = g_['n'], np.array(g_['a'], dtype=float), g_['kind'], np.array(g_['c'], dtype=float), g_['bounds']
        else:
            n = rng.randint(2, 3)
            a = np.array([float(rng.randint(-2, 2)) for _ in range(n)])
            kind = rng.choice(['norm', 'exp', 'abs', 'mixed'])
            cvec = np.array([float(rng.choice([1, -1, 2])) for _ in range(n)])
            bnd = [float(rng.choice([1, 2, 3])), float(rng.choice([3, 5])), float(rng.choice([1, 2]))]
        x = cl.Variable(shape=(n,), name='ar_x%d' % t)
        cons = []
        if kind in ('norm', 'mixed'):
            cons.append(cl.vector2norm(x - a) <= bnd[0])
        if kind in ('exp', 'mixed'):
            cons.append(cl.weighted_sum_exp(np.ones(n), x) <= bnd[1])
            cons.append(x >= -4)
        if kind == 'abs':
            cons.append(cl.sum(cl_abs(x - a)) <= bnd[2])
        rep = {'kind': kind, 'n': n, 'a': a.tolist(), 'c': cvec.tolist(), 'bounds': bnd, 'stream': 'atom-roundtrip'}
        ctx.case(rep, nontrivial=True)
        ctx.count('stream:atom-roundtrip')
        try:
            prob = cl.Problem(cl.MAX, cvec @ x, cons)
            st1, v1 = prob.solve(verbose=False)
        except Exception as e:  # noqa: BLE001
            bad.append(('building / solving a Problem with %s atoms raised %s' % (kind, type(e).__name__), rep))
            continue
        if st1 != 'solved' or not math.isfinite(float(v1)):
            # (an infeasible draw - e.g. a small ball far from where the exponentials are small - is reported as (solved, -inf) with
            # NaN values, rightly: no verdict)
            ctx.incon('atom-roundtrip: status %s, value %s' % (st1, 'finite' if math.isfinite(float(v1)) else 'not finite'))
            continue
        ncols = prob.A.shape[1]
        listed = sum(int(v.size) for v in prob.all_variables)
        if listed != ncols:
            bad.append(('a Problem with %s atoms has %d columns but its Variables account for %d components (an auxiliary Variable that owns '
                        'columns is not listed)' % (kind, ncols, listed), rep))
            continue
        nanvars = [v.name for v in prob.all_variables if np.any(np.isnan(np.asarray(v.value, dtype=float)))]
        if nanvars:
            bad.append(('after a solved Problem with %s atoms the Variable %s still holds NaN' % (kind, nanvars[0][:30]), rep))
            continue
        try:
            p2 = pickle.loads(pickle.dumps(prob))
            p3 = cl.Problem(p2.objective_sense, p2.objective_expr, p2.constraints)
            sig = lambda q: (tuple(q.A.shape), sorted(Counter((co.type, int(co.len)) for co in q.K).items()))  # noqa: E731
            if sig(p3) != sig(prob):
                bad.append(('a Problem with %s atoms rebuilt from its unpickled constraints compiles to %s, the original to %s' % (kind, sig(p3), sig(prob)), rep))
                continue
            st3, v3 = p3.solve(verbose=False)
            if st3 != 'solved' or abs(float(v3) - float(v1)) > 1e-5 * max(1.0, abs(float(v1))):
                bad.append(('a Problem with %s atoms solves to (%s, %.8g) after a pickle round trip, (%s, %.8g) before' % (kind, st3, v3, st1, v1), rep))
        except Exception as e:  # noqa: BLE001
            bad.append(('a Problem with %s atoms: pickle round trip + recompile raised %s: %s' % (kind, type(e).__name__, str(e)[:80]), rep))
    return bad


def _symmetric_values(seed):
    """a symmetric Variable next to an ordinary one: mirrored entries share a column, the columns are those of its own scalar ids,
    and after a solve the values land in the right object"""
    import random
    import sageopt.coniclifts as cl
    rng = random.Random(seed)
    k = rng.randint(2, 3)
    pre = cl.Variable(shape=(rng.randint(1, 3),), name='c20pre_%d' % seed) if rng.random() < 0.5 else None
    X = cl.Variable(shape=(k, k), name='c20X_%d' % seed, var_properties=['symmetric'])
    y = cl.Variable(shape=(2,), name='c20y_%d' % seed)
    M = np.array([[float(rng.randint(-3, 5)) for _ in range(k)] for _ in range(k)])
    M = (M + M.T) / 2
    lo = np.array([7.0, 8.0])
    cons = [X == M, y >= lo] + ([pre >= 1.0] if pre is not None else [])
    obj = cl.sum(y) + (cl.sum(pre) if pre is not None else 0.0)
    prob = cl.Problem(cl.MIN, obj, cons)
    vm = np.asarray(prob.variable_map[X.name])
    ids = np.asarray(X.scalar_variable_ids)
    if not np.array_equal(vm, vm.T):
        return 'variable_map of a symmetric Variable is not symmetric: %s' % vm.tolist()
    if len(set(vm.ravel().tolist())) != k * (k + 1) // 2 or len(set(ids.ravel().tolist())) != k * (k + 1) // 2:
        return 'a symmetric %dx%d Variable does not have %d distinct columns: %s' % (k, k, k * (k + 1) // 2, vm.tolist())
    other = set(np.asarray(prob.variable_map[y.name]).ravel().tolist())
    if other & set(vm.ravel().tolist()):
        return 'columns of the symmetric Variable %s overlap those of another Variable %s' % (vm.tolist(), sorted(other))
    st_, val = prob.solve(solver='ECOS', verbose=False)
    if st_ != 'solved':
        return None
    if not np.allclose(np.asarray(X.value, dtype=float), M, atol=1e-6):
        return 'after solving with X == M the symmetric Variable holds %s instead of M = %s' % (np.round(np.asarray(X.value, dtype=float), 4).tolist(), M.tolist())
    if not np.allclose(np.asarray(y.value, dtype=float), lo, atol=1e-5):
        return 'after solving, y holds %s instead of %s' % (np.asarray(y.value, dtype=float).tolist(), lo.tolist())
    return None


def symmetric_stream(ctx, rng, count):
    out = []
    for _ in range(count):
        seed = rng.randrange(1 << 30)
        kind, res = common.forked(_symmetric_values, seed, timeout=120)
        ctx.case({'stream': 'symmetric-values', 'seed': seed})
        ctx.count('stream:symmetric-values')
        if kind == 'exception':
            out.append(('building / solving a model with a symmetric Variable raised: %s' % res, {'symmetric_seed': seed}))
        elif kind != 'ok':
            ctx.incon('symmetric: solver %s' % kind)
        elif res:
            out.append((res, {'symmetric_seed': seed}))
    return out


def run(ctx):
    rng = ctx.rng
    ctx.lean = common.lean_check('C20')
    quick = ctx.quick()
    common.run_regressions(ctx, 'C20', recheck)
    H = 200 if quick else 2000
    maxops = 10 if quick else 30
    tpl = Template()
    hists, reals = [], []
    try:
        for e in common.load_corpus('C20'):
            if 'ops' in e and 'regress' not in e:
                hists.append(e['ops'])
        for _ in range(H):
            hists.append(gen_history(rng, maxops))
        annotated, firsts = [], []
        for ops in hists:
            ro, ops2, first = run_real(tpl, ops)
            reals.append(ro)
            annotated.append(ops2)
            firsts.append(first)
    finally:
        tpl.close()
    hists = annotated
    mouts = run_driver([{'op': 'vars.history', 'salt': first['gen'], 'ops': [o for o in ops if o['k'] != 'solve']}
                        for ops, first in zip(hists, firsts)])
    nsess = 0
    for ops, ro, mo in zip(hists, reals, mouts):
        if isinstance(mo, dict) and 'error' in mo:
            raise common.DriverError(mo['error'])
        if 'raises' in mo:
            raise common.DriverError('model rejected a generated history: %s' % mo['raises'])
        kinds = [o['k'] for o in ops]
        nsess += kinds.count('newsession')
        ctx.case({'stream': 'history', 'ops': kinds}, nontrivial=len(ops) >= 4)
        for kk in kinds:
            ctx.count('op:' + kk)
        it = iter(mo['out'])
        bad = False
        for op, o in zip(ops, ro):
            if op['k'] == 'solve':
                continue
            m = next(it)
            if common.canon_json(canon(op, o)) != common.canon_json(canon(op, m)):
                ctx.disagreement('history', {'ops': ops, 'at': op}, o, m)
                bad = True
                break
        if not bad:
            ctx.traces_validated += 1
        why = oracle(ops, ro)
        if why:
            ctx.violation('identity: ' + why, {'ops': ops, 'observed': ro})
    ctx.extra['fresh_interpreter_sessions'] = nsess
    bseed, bcount = rng.randrange(1 << 30), 3 if quick else 20
    for what, rep in builder_names(ctx, random.Random(bseed), bcount):
        ctx.violation('names: ' + what, dict(rep, bseed=bseed, bcount=bcount))
    for what, rep in atom_roundtrip_stream(ctx, rng, 8 if quick else 60):
        ctx.violation('atoms: ' + what, rep)
    for what, rep in stored_values_stream(ctx, rng, 9 if quick else 60):
        ctx.violation('stored values: ' + what, rep)
    for what, rep in symmetric_stream(ctx, rng, 6 if quick else 60):
        ctx.violation('symmetric: ' + what, rep)
    if (not ctx.lean.ok or ctx.disagreements) and not ctx.violations:
        common.broken_report(ctx, 'identity oracles found no failing history among %d' % len(hists))
    return ctx.finish(
        level='proof',
        rule='random histories (<= %d operations): create (8 shapes, symmetric, named/unnamed), slice, clear_variable_indices, dump object '
             'graphs (a Variable with its slices in random order), load in the same or a fresh interpreter (forked from a pristine '
             'template), probe LP; plus Problems from the four relaxation builders; non-trivial = history with >= 4 operations; '
             'distinct = distinct operation list' % maxops,
        trusted=TRUSTED, assumptions=ASSUME)


def recheck(r):
    """execute the stored input of a violation again; the violation it (still) shows, or None"""
    if 'ops' in r:
        tpl = Template(width=2)
        try:
            ro, _, _ = run_real(tpl, [o for o in r['ops']])
        finally:
            tpl.close()
        why = oracle(r['ops'], ro)
        return ('identity: ' + why) if why else None
    if 'bseed' in r:
        out = builder_names(common.RecCtx(), random.Random(r['bseed']), r.get('bcount', 3))
        return ('names: ' + out[0][0]) if out else None
    if r.get('stream') == 'atom-roundtrip':
        out = atom_roundtrip_stream(common.RecCtx(), random.Random(0), 0, given=[r])
        return ('atoms: ' + out[0][0]) if out else None
    if 'mode' in r and 'lo' in r:
        out = stored_values_stream(common.RecCtx(), random.Random(0), 0, given=[r])
        return ('stored values: ' + out[0][0]) if out else None
    if 'symmetric_seed' in r:
        kind, res = common.forked(_symmetric_values, r['symmetric_seed'], timeout=120)
        if kind == 'exception':
            return 'symmetric: building / solving a model with a symmetric Variable raised: %s' % res
        return ('symmetric: ' + res) if kind == 'ok' and res else None
    return None


def replay(obj):
    print('what:', obj['what'])
    print(common.canon_json(obj['replay'])[:1500])
    return 1
