"""
C18 -- GF(2) linear algebra and sign-pattern recovery are exact.

Model: lean/SageoptModel/Model/GF2.lean; theorems: Props/C18.lean.
Tie: exhaustive + random differential test of mod2rref / mod2linsolve / mod2nullspace /
variable_sign_patterns against the Lean model (entry-by-entry).
Oracle for the failing-input search: brute force over {0,1}^n.
"""
import itertools

import numpy as np

import common
from common import correspond

TRUSTED = [
    'Lean 4.33.0 kernel; axioms of every theorem in Props/C18*.lean are printed and must be within {propext, Classical.choice, Quot.sound}',
    'harness/props/c18.py (generators, canonicalisation: null spaces and sign-pattern lists are compared as sorted lists because the code enumerates a Python set)',
    'Driver.lean / Drv/GF2.lean JSON glue',
    'numpy integer arithmetic on small 0/1 arrays',
]
ASSUME = [
    'greedy_weighted_cut_negatives (hueristic=True) is outside the property and not modelled',
    'inputs are integer arrays; mod2rref reduces them mod 2 first (the model receives the parities)',
]


def psr():
    from sageopt.relaxations import poly_solution_recovery as m
    return m


# ---------------------------------------------------------------- implementation runners

def impl_rref(c):
    A = np.array(c['A'], dtype=int).reshape(c['m'], c['n'])
    R, p = psr().mod2rref(A.copy(), forward_only=c['fwd'])
    return {'A': np.asarray(R).astype(int).tolist(), 'piv': [int(k) for k in p]}


def impl_linsolve(c):
    A = np.array(c['A'], dtype=int).reshape(c['m'], c['n'])
    b = np.array(c['b'], dtype=int)
    x = psr().mod2linsolve(A.copy(), b.copy())
    return {'x': None if x is None else [int(v) for v in x]}


def impl_nullspace(c):
    A = np.array(c['A'], dtype=int).reshape(c['m'], c['n'])
    R, p = psr().mod2rref(A.copy())
    N = psr().mod2nullspace(R, p)
    B = psr().mod2nullspace_basis(R, p)
    return {'N': sorted([int(v) for v in vec] for vec in N),
            'basis': sorted([int(v) for v in col] for col in B.T.tolist()),
            'R': np.asarray(R).astype(int).tolist(), 'piv': [int(k) for k in p]}


def impl_signs(c):
    alpha = np.array(c['alpha'], dtype=int).reshape(c['m'], c['n'])
    mom = np.array(c['moments'], dtype=float)
    ys = psr().variable_sign_patterns(alpha, mom, hueristic=False, all_signs=c['all'])
    out = []
    for y in ys:
        y = np.asarray(y)
        assert y.shape == (c['n'],) and np.all(np.abs(y) == 1)
        out.append([1 if v < 0 else 0 for v in y])
    return {'signs': sorted(out)}


# ---------------------------------------------------------------- model lines

def line_rref(c):
    return {'op': 'gf2.rref', 'n': c['n'], 'A': [[v % 2 for v in r] for r in c['A']], 'fwd': c['fwd']}


def line_linsolve(c):
    return {'op': 'gf2.linsolve', 'n': c['n'], 'A': [[v % 2 for v in r] for r in c['A']],
            'b': [v % 2 for v in c['b']]}


def line_signs(c):
    return {'op': 'gf2.signs', 'n': c['n'], 'alphaOdd': [[v % 2 for v in r] for r in c['alpha']],
            'nz': [1 if v != 0 else 0 for v in c['moments']],
            'neg': [1 if v < 0 else 0 for v in c['moments']], 'all': c['all']}


# ---------------------------------------------------------------- oracles (brute force)

def mat_vec(A, x):
    return [sum(a * b for a, b in zip(r, x)) % 2 for r in A]


def kernel(A, n):
    return sorted(list(x) for x in itertools.product((0, 1), repeat=n) if not any(mat_vec(A, x)))


def oracle_rref(c, out):
    """None if fine, else description."""
    if 'raises' in out:
        return 'mod2rref raised %s' % out['raises']
    A = [[v % 2 for v in r] for r in c['A']]
    R, p = out['A'], out['piv']
    n, m = c['n'], c['m']
    if len(R) != m or any(len(r) != n for r in R):
        return 'shape changed'
    if n <= 10 and kernel(A, n) != kernel(R, n):
        return 'result is not row equivalent (solution sets differ)'
    if any(p[i] >= p[i + 1] for i in range(len(p) - 1)) or any(not (0 <= k < n) for k in p):
        return 'pivot columns not strictly increasing / out of range'
    for i, pc in enumerate(p):
        if i >= m or R[i][pc] != 1 or any(R[i][j] for j in range(pc)):
            return 'row %d does not have its leading one in pivot column %d' % (i, pc)
        if any(R[k][pc] for k in range(i + 1, m)):
            return 'entries below pivot %d not eliminated' % i
        if not c['fwd'] and any(R[k][pc] for k in range(i)):
            return 'reduced form: entries above pivot %d not eliminated' % i
    for i in range(len(p), m):
        if any(R[i]):
            return 'row %d past the rank is not zero' % i
    return None


def oracle_linsolve(c, out):
    if 'raises' in out:
        return 'mod2linsolve raised %s' % out['raises']
    A = [[v % 2 for v in r] for r in c['A']]
    b = [v % 2 for v in c['b']]
    n = c['n']
    x = out['x']
    if x is not None:
        if len(x) != n or mat_vec(A, x) != b:
            return 'returned vector does not solve A x = b (mod 2)'
        return None
    if n <= 14:
        for y in itertools.product((0, 1), repeat=n):
            if mat_vec(A, y) == b:
                return 'None returned although x=%s solves the system' % (list(y),)
    return None


def oracle_nullspace(c, out):
    if 'raises' in out:
        return 'mod2nullspace raised %s' % out['raises']
    A = [[v % 2 for v in r] for r in c['A']]
    if c['n'] <= 12 and out['N'] != kernel(A, c['n']):
        return 'enumerated null space is not the solution set of A x = 0'
    return None


def consistent(c, y):
    for row, mom in zip(c['alpha'], c['moments']):
        if mom == 0:
            continue
        par = sum((a % 2) * yy for a, yy in zip(row, y)) % 2
        if par != (1 if mom < 0 else 0):
            return False
    return True


def oracle_signs(c, out):
    if 'raises' in out:
        return 'variable_sign_patterns raised %s' % out['raises']
    n = c['n']
    ys = out['signs']
    for y in ys:
        if not consistent(c, y):
            return 'returned sign vector %s is inconsistent with the moment signs' % y
    if n <= 12:
        allc = [list(y) for y in itertools.product((0, 1), repeat=n) if consistent(c, y)]
        if not ys and allc:
            return 'no pattern returned although %s is consistent' % allc[0]
        if c['all']:
            rel = [j for j in range(n) if any(mom != 0 and row[j] % 2 for row, mom in zip(c['alpha'], c['moments']))]
            got = {tuple(y[j] for j in rel) for y in ys}
            for y in allc:
                if tuple(y[j] for j in rel) not in got:
                    return 'all_signs: consistent pattern %s (on relevant coordinates %s) missing' % (y, rel)
    return None


# ---------------------------------------------------------------- generators

def all_mats(m, n):
    for bits in itertools.product((0, 1), repeat=m * n):
        yield [list(bits[i * n:(i + 1) * n]) for i in range(m)]


def rand_mat(rng, m, n, dens=None, big=False):
    d = rng.choice([0.2, 0.4, 0.5, 0.7]) if dens is None else dens
    A = [[1 if rng.random() < d else 0 for _ in range(n)] for _ in range(m)]
    if big:   # arbitrary integers with the chosen parity, incl. negatives
        A = [[v + 2 * rng.randint(-3, 3) for v in r] for r in A]
    # plant dependent rows sometimes
    if m >= 3 and rng.random() < 0.4:
        i, j, k = rng.sample(range(m), 3)
        A[k] = [(a + b) % 2 for a, b in zip(A[i], A[j])]
    return A


def gen_cases(ctx):
    rng = ctx.rng
    quick = ctx.quick()
    rref, lins, nul, sgn = [], [], [], []
    ex_sizes = [(m, n) for m in range(1, 4) for n in range(1, 4)] if quick else \
        [(m, n) for m in range(1, 5) for n in range(1, 5)] + [(3, 5), (5, 3)]
    for (m, n) in ex_sizes:
        for A in all_mats(m, n):
            for fwd in (True, False):
                rref.append({'m': m, 'n': n, 'A': A, 'fwd': fwd})
            nul.append({'m': m, 'n': n, 'A': A})
            for b in itertools.product((0, 1), repeat=m):
                lins.append({'m': m, 'n': n, 'A': A, 'b': list(b)})
    ctx.extra['exhaustive_sizes'] = ex_sizes
    # random larger
    nr = 300 if quick else 4000
    for _ in range(nr):
        m, n = rng.randint(1, 12), rng.randint(1, 12)
        A = rand_mat(rng, m, n, big=rng.random() < 0.3)
        rref.append({'m': m, 'n': n, 'A': A, 'fwd': rng.random() < 0.5})
        if n <= 10:
            nul.append({'m': m, 'n': n, 'A': A})
        if rng.random() < 0.6:   # consistent right-hand side
            x = [rng.randint(0, 1) for _ in range(n)]
            b = mat_vec(A, x)
        else:
            b = [rng.randint(0, 1) for _ in range(m)]
        lins.append({'m': m, 'n': n, 'A': A, 'b': b})
    # sign problems: exhaustive small, random larger.  Premise: moments >= 0 on all-even monomials.
    sg_sizes = [(m, n) for m in range(1, 3) for n in range(1, 4)] + ([(3, 2)] if quick else
                                                                       [(3, 1), (3, 2), (3, 3), (3, 4)])
    for (m, n) in sg_sizes:
        for A in all_mats(m, n):
            for mom in itertools.product((-1, 0, 1), repeat=m):
                if any(mo < 0 and not any(A[i]) for i, mo in enumerate(mom)):
                    continue
                for al in (True, False):
                    sgn.append({'m': m, 'n': n, 'alpha': A, 'moments': list(mom), 'all': al})
    ctx.extra['exhaustive_sign_sizes'] = sg_sizes
    for _ in range(300 if quick else 4000):
        m, n = rng.randint(1, 9), rng.randint(1, 8)
        A = [[rng.randint(0, 4) for _ in range(n)] for _ in range(m)]
        if rng.random() < 0.7:  # consistent signs from a hidden pattern
            y = [rng.randint(0, 1) for _ in range(n)]
            mom = []
            for r in A:
                par = sum((a % 2) * yy for a, yy in zip(r, y)) % 2
                mag = rng.choice([0, 0.5, 1, 2.25])
                mom.append(-mag if par else mag)
        else:
            mom = [rng.choice([-1.5, 0, 0, 2, 0.75]) for _ in range(m)]
            mom = [abs(v) if not any(a % 2 for a in A[i]) else v for i, v in enumerate(mom)]
        sgn.append({'m': m, 'n': n, 'alpha': A, 'moments': mom, 'all': rng.random() < 0.6})
    return rref, lins, nul, sgn


# ---------------------------------------------------------------- the check

def canon_null(o):
    o = dict(o)
    if 'N' in o:
        o['N'] = sorted(o['N'])
    if 'basis' in o:
        o['basis'] = sorted(o['basis'])
    return o


def run(ctx):
    ctx.lean = common.lean_check('C18')
    common.run_regressions(ctx, 'C18', lambda r: recheck(r))
    corpus = common.load_corpus('C18')
    rref, lins, nul, sgn = gen_cases(ctx)
    rref = [c for c in corpus if c.get('kind') == 'rref'] + rref
    lins = [c for c in corpus if c.get('kind') == 'linsolve'] + lins
    nul = [c for c in corpus if c.get('kind') == 'nullspace'] + nul
    sgn = [c for c in corpus if c.get('kind') == 'signs'] + sgn

    def nt_rref(c, o):
        return 'piv' in o and 0 < len(o['piv'])

    r1 = correspond(ctx, 'rref', rref, impl_rref, line_rref, nontrivial=nt_rref)
    r2 = correspond(ctx, 'linsolve', lins, impl_linsolve, line_linsolve,
                    nontrivial=lambda c, o: any(any(r) for r in c['A']))

    def line_null(c):
        # the model's nullspace takes (arref, piv): use the *model's own* rref via a second op
        return {'op': 'gf2.nullspace_of', 'n': c['n'], 'A': [[v % 2 for v in r] for r in c['A']]}

    r3 = correspond(ctx, 'nullspace', nul, impl_nullspace, line_null, canon=canon_null,
                    nontrivial=lambda c, o: 'N' in o and len(o['N']) > 1)
    r4 = correspond(ctx, 'signs', sgn, impl_signs, line_signs,
                    canon=lambda o: {'signs': sorted(o['signs'])},
                    nontrivial=lambda c, o: any(mo != 0 for mo in c['moments']))
    ctx.exhaustive = True
    # independent oracle on the implementation's outputs (always: it is cheap)
    for kind, results, oracle in (('rref', r1, oracle_rref), ('linsolve', r2, oracle_linsolve),
                                  ('nullspace', r3, oracle_nullspace), ('signs', r4, oracle_signs)):
        for c, io, mo in results:
            why = oracle(c, io)
            if why is not None:
                cc = dict(c)
                cc['kind'] = kind
                ctx.violation('%s: %s' % (kind, why), {'case': cc, 'observed': io, 'model': mo, 'why': why})
    if (not ctx.lean.ok or ctx.disagreements) and not ctx.violations:
        common.broken_report(ctx, 'brute-force oracles over {0,1}^n found no failing input among %d cases'
                             % ctx.evaluations)
    return ctx.finish(
        level='proof',
        rule='exhaustive: every binary matrix of the listed sizes with every right-hand side (both rref modes), '
             'every (alpha mod 2, sign(moments)) pattern of the listed sizes satisfying the premise; plus random '
             'integer matrices up to 12x12.  A case is non-trivial when the matrix has a pivot / a nonzero entry / '
             'a null space with more than one element / a nonzero moment; distinct = distinct canonical JSON',
        trusted=TRUSTED, assumptions=ASSUME)


def replay(obj):
    c = obj['replay']['case']
    kind = c['kind']
    fn, oracle = {'rref': (impl_rref, oracle_rref), 'linsolve': (impl_linsolve, oracle_linsolve),
                  'nullspace': (impl_nullspace, oracle_nullspace), 'signs': (impl_signs, oracle_signs)}[kind]
    out = common.impl_call(fn, c)
    why = oracle(c, out)
    print('case:', common.canon_json(c))
    print('implementation returned:', common.canon_json(out))
    print('oracle:', why or 'ok')
    return 1 if why else 0


recheck = common.recheck_via_replay(replay)
