"""
C12 -- Signomial and Polynomial arithmetic is pointwise arithmetic.

Model: lean/SageoptModel/Model/Sig.lean; theorems: Props/C12.lean.
Tie: random expression trees evaluated on the real classes and on the model, compared at
representation level (row order of alpha, c, alpha_c).
Oracle: exact coefficient dictionaries over `fractions` (function level) + representation invariants.
"""
from fractions import Fraction as F

import numpy as np

import common
import sigtree as st
from common import correspond, frac_str

TRUSTED = [
    'Lean 4.33.0 kernel; axioms of every theorem in Props/C12*.lean within {propext, Classical.choice, Quot.sound}',
    'harness/sigtree.py (tree generator, exact reference), harness/props/c12.py',
    'Driver.lean / Drv/Sig.lean tree evaluator (maps Python operator dispatch to model calls)',
    'numpy float64 arithmetic is exact on the generated domain (half-integer exponents, small dyadic coefficients)',
]
ASSUME = [
    'exponents are multiples of 1e-7 after construction (the constructor rounds); on the generated domain rounding is the identity, '
    'a separate stream exercises exact 7-decimal rounding',
    'function equality is decided at coefficient level (linear independence of distinct exponentials is not formalised)',
    'mixed Signomial/Polynomial operands and numpy scalar types outside __NUMERIC_TYPES__ are not claimed',
]


def impl_tree(c):
    res = st.build(c['t'])
    o = st.out_json(res)
    if 'alpha' in o:
        o['alpha_c'] = st.alpha_c_json(res)
    return o


def line_tree(c):
    return {'op': 'sig.eval', 't': st.strip_types(c['t'])}


def canon_model_tree(o):
    if isinstance(o, dict) and 'alpha' in o and 'alpha_c' not in o:
        o = dict(o)
        o['alpha_c'] = sorted([[a, v] for a, v in zip(o['alpha'], o['c'])])
    return o


def impl_eq(c):
    f, g = st.build(c['l']), st.build(c['r'])
    return {'lr': bool(f == g), 'rl': bool(g == f), 'll': bool(f == f), 'rr': bool(g == g)}


def line_eq(c):
    return {'op': 'sig.eq', 'l': st.strip_types(c['l']), 'r': st.strip_types(c['r'])}


def oracle_tree(c, io):
    t = c['t']
    try:
        ref = st.ref_eval(t)
    except st.RefError:
        return None
    if ref[0] == 'num':
        return None
    _, n, d, poly = ref
    if 'raises' in io:
        return 'raised %s (%s) on a well-defined expression whose value is %s' % (
            io['raises'], io.get('msg', '')[:80], {str(tuple(map(str, k))): str(v) for k, v in list(d.items())[:4]})
    if 'alpha' not in io:
        return 'result is not a Signomial/Polynomial (%s)' % io
    if io['n'] != n or io['poly'] != poly:
        return 'wrong kind / dimension of result'
    rows = [tuple(F(x) for x in r) for r in io['alpha']]
    cs = [F(x) for x in io['c']]
    if len(set(rows)) != len(rows):
        return 'exponent rows of the result are not unique'
    got = {k: v for k, v in zip(rows, cs) if v != 0}
    if got != d:
        return 'result %s is not the pointwise value %s' % (
            {str(tuple(map(str, k))): str(v) for k, v in got.items()}, {str(tuple(map(str, k))): str(v) for k, v in d.items()})
    if t['k'] in ('add', 'sub', 'mul', 'div', 'neg') and any(v == 0 for v in cs):
        if len(cs) != 1:
            return 'explicit zero term in the result of arithmetic'
    ac = {tuple(F(x) for x in k): F(v) for k, v in io['alpha_c']}
    if ac != dict(zip(rows, cs)):
        return 'alpha_c %s does not describe the same function as (alpha, c)' % io['alpha_c']
    return None


def coeff_ref(t):
    r = st.ref_eval(t)
    return r[2]


def oracle_eq(c, io):
    if 'raises' in io:
        return '== raised %s' % io['raises']
    if not (io['ll'] and io['rr']):
        return 'equality is not reflexive'
    if io['lr'] != io['rl']:
        return 'equality is not symmetric: (f == g, g == f) = (%s, %s)' % (io['lr'], io['rl'])
    try:
        df, dg = coeff_ref(c['l']), coeff_ref(c['r'])
    except st.RefError:
        return None
    tol = F(1, 10 ** 8)
    diffs = [abs(df.get(k, F(0)) - dg.get(k, F(0))) for k in set(df) | set(dg)]
    if any(tol / 4 < x < 4 * tol for x in diffs):
        return None  # too close to the tolerance to call
    want = all(x <= tol for x in diffs)
    if io['lr'] != want:
        return 'f == g is %s but the functions %s' % (io['lr'], 'coincide' if want else 'differ')
    return None


def gen_eq_pair(rng, n, poly):
    f = st.gen_leaf(rng, n, poly, allow_dups=False)
    while f['k'] != 'sig':
        f = st.gen_leaf(rng, n, poly, allow_dups=False)
    # make rows unique
    seen, rows, cs = set(), [], []
    for r, v in zip(f['alpha'], f['c']):
        if tuple(r) not in seen:
            seen.add(tuple(r))
            rows.append(r)
            cs.append(v)
    f = dict(f, alpha=rows, c=cs)
    kind = rng.choice(['perm', 'zero_extra', 'perturb_small', 'perturb_mid', 'perturb_big', 'different', 'shifted_support', 'tree',
                       'large_coeff'])
    g = dict(f)
    idx = list(range(len(rows)))
    if kind == 'perm':
        rng.shuffle(idx)
        g = dict(f, alpha=[rows[i] for i in idx], c=[cs[i] for i in idx])
    elif kind == 'zero_extra':
        new = [frac_str(F(rng.randint(4, 7))) for _ in range(n)]
        g = dict(f, alpha=rows + [new], c=cs + ['0'])
    elif kind in ('perturb_small', 'perturb_mid', 'perturb_big'):
        i = rng.randrange(len(rows))
        eps = {'perturb_small': F(1, 2 ** 40), 'perturb_mid': F(1, 2 ** 24), 'perturb_big': F(1, 2 ** 16)}[kind]
        if kind == 'perturb_small' and rng.random() < 0.5:
            eps = F(1, 2 ** 29)   # ~1.9e-9: still below the tolerance
        c2 = list(cs)
        c2[i] = frac_str(F(c2[i]) + eps)
        g = dict(f, c=c2)
    elif kind == 'large_coeff':
        # coefficients of size 10^6 that differ by a whole unit (or by 1/64): the tolerance of == is absolute, not relative
        i = rng.randrange(len(rows))
        big = F(rng.choice([10 ** 6, 3 * 10 ** 6, 2 ** 20]))
        c1 = list(cs)
        c1[i] = frac_str(big)
        c2 = list(c1)
        c2[i] = frac_str(big + rng.choice([1, -1, F(1, 64), 0]))
        f = dict(f, c=c1)
        g = dict(f, c=c2)
    elif kind == 'different':
        g = st.gen_leaf(rng, n, poly, allow_dups=False)
    elif kind == 'shifted_support':
        # same number of terms, supports overlap partially (the one-sided comparison's blind spot)
        sh = [[frac_str(F(x) + 1) for x in r] for r in rows]
        g = dict(f, alpha=sh)
        if rng.random() < 0.5 and len(cs) >= 2:
            f = dict(f, c=['0'] + cs[1:])
    else:
        g = {'k': 'sub', 'l': {'k': 'add', 'l': f, 'r': st.gen_leaf(rng, n, poly)}, 'r': None}
        g['r'] = g['l']['r']
    if rng.random() < 0.5:
        f, g = g, f
    return {'l': f, 'r': g, 'kind': kind}


def gen_round_case(rng):
    """keys / rows that differ only beyond the 7th decimal"""
    n = rng.randint(1, 2)
    base = [F(rng.randint(-2, 3)) for _ in range(n)]
    eps = F(rng.choice([1, 2, 3, -1, -2]), 10 ** 8)
    k1 = [float(x) for x in base]
    k2 = [float(x + eps) for x in base]
    other = [float(x + 1) for x in base]
    if rng.random() < 0.5:
        return {'k': 'dict', 'poly': False, 'n': n,
                'items': [[[st.fr(x) for x in k2], '1'], [[st.fr(x) for x in k1], '2'], [[st.fr(x) for x in other], '5']]}
    return {'k': 'sig', 'poly': False, 'n': n, 'alpha': [[st.fr(x) for x in k2], [st.fr(x) for x in other], [st.fr(x) for x in k1]],
            'c': ['1', '5', '2']}


def canon_round(o):
    """compare exponents after mapping to the nearest multiple of 1e-7 (np.round's float result is the float
    nearest to k/1e7, the model's is k/10^7 exactly)"""
    if isinstance(o, dict) and 'alpha' in o:
        o = dict(o)
        o['alpha'] = [[frac_str(st.round7(F(x))) for x in r] for r in o['alpha']]
        if 'alpha_c' in o:
            o['alpha_c'] = sorted([[[frac_str(st.round7(F(x))) for x in k], v] for k, v in o['alpha_c']])
    return o


def run(ctx):
    rng = ctx.rng
    ctx.lean = common.lean_check('C12')
    common.run_regressions(ctx, 'C12', lambda r: recheck(r))
    quick = ctx.quick()
    ntrees = 1000 if quick else 10000
    maxdepth = 4 if quick else 6
    corpus = common.load_corpus('C12')
    trees = [c for c in corpus if c.get('stream') == 'tree']
    for i in range(ntrees):
        n = rng.randint(1, 3)
        poly = rng.random() < 0.4
        t = st.gen_tree(rng, rng.randint(1, maxdepth), n, poly)
        if st.tree_size(t) > 60:
            continue
        if not st.exact_in_float(t):
            ctx.incon('generator: tree not exact in float64 (discarded)')
            continue
        trees.append({'t': t})
    # every operand type pair: op x numeric type x side
    for ty in st.NUM_TYPES:
        for op in ('add', 'sub', 'mul', 'div'):
            for side in ('l', 'r'):
                for poly in (False, True):
                    leaf = st.gen_monomial(rng, 2, poly) if (op == 'div' and side == 'l') else st.gen_leaf(rng, 2, poly)
                    num = {'k': 'num', 'v': '2', 't': ty}
                    t = {'k': op, 'l': num, 'r': leaf} if side == 'l' else {'k': op, 'l': leaf, 'r': num}
                    trees.append({'t': t})
    for c in trees:
        for o in st.tree_ops(c['t']):
            ctx.count('op:' + o)
    r_tree = correspond(ctx, 'tree', trees, impl_tree, line_tree, canon=canon_model_tree,
                        nontrivial=lambda c, o: st.tree_size(c['t']) >= 3)
    eqs = [c for c in corpus if c.get('stream') == 'eq']
    for i in range(300 if quick else 3000):
        eqs.append(gen_eq_pair(rng, rng.randint(1, 3), rng.random() < 0.4))
    for c in eqs:
        ctx.count('eqkind:' + c.get('kind', 'corpus'))
    r_eq = correspond(ctx, 'eq', eqs, impl_eq, line_eq,
                      canon=lambda o: {'lr': o['lr'], 'rl': o['rl']}, nontrivial=lambda c, o: True)
    rounds = [c for c in corpus if c.get('stream') == 'round'] + [{'t': gen_round_case(rng)} for _ in range(60 if quick else 600)]
    r_round = correspond(ctx, 'round', rounds, impl_tree, line_tree,
                         canon=lambda o: canon_round(canon_model_tree(o)), nontrivial=lambda c, o: True)
    # oracles on the implementation's outputs
    for c, io, mo in r_tree:
        why = oracle_tree(c, io)
        if why:
            ctx.violation('arithmetic: ' + why, {'stream': 'tree', 'case': c, 'observed': io, 'model': mo})
    for c, io, mo in r_eq:
        why = oracle_eq(c, io)
        if why:
            ctx.violation('equality: ' + why, {'stream': 'eq', 'case': c, 'observed': io, 'model': mo})
    for c, io, mo in r_round:
        if 'alpha' in io:
            rows = [tuple(st.round7(F(x)) for x in r) for r in io['alpha']]
            cs = [F(x) for x in io['c']]
            ac = {tuple(st.round7(F(x)) for x in k): F(v) for k, v in io['alpha_c']}
            if ac != dict(zip(rows, cs)) or len(io['alpha_c']) != len(rows):
                ctx.violation('construction: alpha_c %s does not describe the same function as alpha=%s c=%s'
                              % (io['alpha_c'], io['alpha'], io['c']),
                              {'stream': 'round', 'case': c, 'observed': io, 'model': mo})
    if (not ctx.lean.ok or ctx.disagreements) and not ctx.violations:
        common.broken_report(ctx, 'exact rational reference found no failing input among %d cases' % ctx.evaluations)
    return ctx.finish(
        level='proof',
        rule='random expression trees (depth <= %d) over Signomials/Polynomials with (half-)integer exponents, small dyadic '
             'coefficients, repeated rows, zero coefficients, -0.0, all 7 numeric scalar types on both sides of every operator; '
             'equality pairs (permuted, explicit zeros, perturbed below/above tolerance, shifted supports); rounding cases. '
             'non-trivial = tree with >= 3 nodes; distinct = distinct canonical JSON' % maxdepth,
        trusted=TRUSTED, assumptions=ASSUME)


def replay(obj):
    r = obj['replay']
    c = r['case']
    if r['stream'] == 'eq':
        out = common.impl_call(impl_eq, c)
        why = oracle_eq(c, out)
    else:
        out = common.impl_call(impl_tree, c)
        why = oracle_tree(c, out) if r['stream'] == 'tree' else None
        if r['stream'] == 'round' and 'alpha' in out:
            rows = [tuple(st.round7(F(x)) for x in rr) for rr in out['alpha']]
            ac = {tuple(st.round7(F(x)) for x in k): F(v) for k, v in out['alpha_c']}
            if ac != dict(zip(rows, [F(x) for x in out['c']])) or len(out['alpha_c']) != len(rows):
                why = 'alpha_c inconsistent with (alpha, c)'
    print('case:', common.canon_json(c))
    print('implementation returned:', common.canon_json(out))
    print('oracle:', why or 'ok')
    return 1 if why else 0


recheck = common.recheck_via_replay(replay)
