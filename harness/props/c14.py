"""
C14 -- derivatives, shifts, conversions and composition are exact.

Model: lean/SageoptModel/Model/SigCalc.lean; theorems: Props/C14.lean.
Tie: representation-level diff of grad / hess / as_polynomial / as_signomial / p(z); value-level
comparison of __call__, grad_val, hess_val, shift_coordinates at points where the exponentials
are exact rationals (x = ln 4 * k, k integer, half-integer exponents: e^{a.x} = 2^{2 a.k}).
Oracle: exact rational derivative of the coefficient dictionary.
"""
import math
from fractions import Fraction as F

import numpy as np

import common
import sigtree as st
from common import correspond, frac_str, run_driver

TRUSTED = [
    'Lean 4.33.0 kernel; axioms of every theorem in Props/C14*.lean within {propext, Classical.choice, Quot.sound}',
    'harness/props/c14.py, harness/sigtree.py (generators, exact reference derivative)',
    'Driver.lean / Drv/SigCalc.lean glue',
    'for signomial VALUES the implementation\'s floats are compared with the model\'s exact rationals at relative tolerance 1e-9 '
    '(numpy exp / longdouble arithmetic is not modelled)',
]
ASSUME = [
    'signomial evaluation points are x = ln(4)*k so that every e^{alpha.x} is an exact power of two',
    'shift_coordinates is claimed for Signomials (where it is defined and documented)',
]
LN4 = math.log(4.0)
RTOL = 1e-9


def close(a, q):
    q = float(q)
    return abs(float(a) - q) <= RTOL * max(1.0, abs(q))


def half_integer_exponents(t):
    try:
        r = st.ref_eval(t)
    except st.RefError:
        return False
    if r[0] != 'fun':
        return True
    return all(F(2 * e).denominator == 1 for key in r[2] for e in key)


def leaf(rng, n, poly):
    t = st.gen_leaf(rng, n, poly)
    if rng.random() < 0.25:
        t2 = st.gen_tree(rng, 2, n, poly)
        if st.exact_in_float(t2) and st.tree_size(t2) < 12:
            try:
                r = st.ref_eval(t2)
                if r[0] == 'fun':
                    return t2
            except st.RefError:
                pass
    if rng.random() < 0.06:
        return {'k': 'sig', 'poly': poly, 'n': n, 'alpha': [['0'] * n], 'c': [rng.choice(['0', '3'])]}   # constant / zero
    if t.get('k') == 'sig' and rng.random() < 0.1:
        # the same exponent twice, once with -0.0 where the other has 0.0 (what y ** -1 leaves behind): ONE term
        rows = [i for i, r in enumerate(t['alpha']) if any(F(x) == 0 for x in r)]
        if rows:
            i = rng.choice(rows)
            t = dict(t, alpha=t['alpha'] + [list(t['alpha'][i])], c=t['c'] + [frac_str(F(rng.choice([1, 2, -3])))],
                     negzero_rows=[len(t['alpha'])])
    return t


# ---------------------------------------------------------------- implementation runners

def impl_grad(c):
    f = st.build(c['t'])
    return {'grad': [st.out_json(g) for g in f.grad]}


def impl_hess(c):
    f = st.build(c['t'])
    H = f.hess
    n = f.n
    return {'hess': [[st.out_json(H[i, j]) for j in range(n)] for i in range(n)]}


def impl_conv(c):
    from sageopt.symbolic.polynomials import Polynomial
    f = st.build(c['t'])
    g = f.as_signomial() if isinstance(f, Polynomial) else f.as_polynomial()
    return st.out_json(g)


def impl_compose(c):
    p = st.build(c['p'])
    zs = np.array([st.build(z) for z in c['zs']], dtype=object)
    return st.out_json(p(zs))


def impl_vals(c):
    """numbers only: returned as floats (signomials) or exact fractions (polynomials)"""
    from sageopt.symbolic.polynomials import Polynomial
    f = st.build(c['t'])

    def warm(x):
        """the same object is first asked for everything at ANOTHER point, held in the very array that is then updated in place
        (the way an iterative method walks): whatever the object remembers of earlier calls must not show in later ones"""
        xw = x + 1.0
        for fn in (f, f.grad_val, f.hess_val):
            try:
                fn(xw)
            except Exception:  # noqa: BLE001
                pass
        xw[:] = x
        return xw
    if isinstance(f, Polynomial):
        x = warm(np.array([float(F(v)) for v in c['x']]))
        H = f.hess_val(x)
        return {'val': st.fr(f(x)), 'grad': [st.fr(v) for v in f.grad_val(x)], 'hess': [[st.fr(v) for v in row] for row in H.tolist()]}
    x = warm(LN4 * np.array([float(v) for v in c['k']]))
    out = {'val': float(f(x)), 'grad': [float(v) for v in f.grad_val(x)],
           'grad_sym': [float(g(x)) for g in f.grad],
           'hess_sym': [[float(f.hess[i, j](x)) for j in range(f.n)] for i in range(f.n)]}
    try:
        H = np.asarray(f.hess_val(x), dtype=float)
        out['hess'] = H.tolist()
        out['hess_shape'] = list(H.shape)
    except Exception as e:  # noqa: BLE001
        out['hess'] = {'raises': type(e).__name__, 'msg': str(e)[:100]}
    return out


def impl_shift(c):
    f = st.build(c['t'])
    # use f first (derivatives, coefficient dictionary, equality): whatever f caches must not leak into the shifted function
    _ = f.grad, f.hess, f.alpha_c
    x0 = LN4 * np.array([float(v) for v in c['k']])
    g = f.shift_coordinates(x0)
    out = {'alpha': st.mat_json(g.alpha), 'c': [float(v) for v in g.c], 'n': int(g.n)}
    # the shifted object must be self-consistent: its symbolic gradient and its coefficient dictionary are those of ITS (alpha, c)
    a = np.asarray(g.alpha, dtype=float)
    cc = np.asarray(g.c, dtype=float)
    bad = []
    for i in range(g.n):
        want = {}
        for r, v in zip(a.tolist(), (a[:, i] * cc).tolist()):
            if v != 0:
                want[tuple(r)] = want.get(tuple(r), 0.0) + v
        gi = g.grad[i]
        got = {tuple(r): float(v) for r, v in zip(np.asarray(gi.alpha, dtype=float).tolist(), np.asarray(gi.c, dtype=float).tolist()) if v != 0}
        if set(got) != set(want) or any(abs(got[k] - want[k]) > 1e-9 * max(1.0, abs(want[k])) for k in want):
            bad.append('grad[%d]' % i)
    dct = {tuple(float(x) for x in k): float(v) for k, v in g.alpha_c.items() if v != 0}
    own = {}
    for r, v in zip(a.tolist(), cc.tolist()):
        if v != 0:
            own[tuple(r)] = own.get(tuple(r), 0.0) + v
    if set(dct) != set(own) or any(abs(dct[k] - own[k]) > 1e-9 * max(1.0, abs(own[k])) for k in own):
        bad.append('alpha_c')
    out['stale'] = bad
    return out


def impl_matrix(c):
    f = st.build(c['t'])
    X = np.array([[float(F(v)) for v in col] for col in c['cols']]).T     # columns are points
    if c.get('int_points'):
        X = X.astype(int)          # the caller hands over an INTEGER matrix of points (the values need not be integers)
    vals = f(X)
    each = [f(X[:, j].astype(float)) for j in range(X.shape[1])]
    return {'matrix': [st.fr(v) for v in np.asarray(vals, dtype=float).ravel()], 'each': [st.fr(v) for v in each]}


# ---------------------------------------------------------------- exact reference

def ref_dict(t):
    r = st.ref_eval(t)
    if r[0] != 'fun':
        raise st.RefError('numeric')
    return r[1], r[2], r[3]


def d_partial(d, i, poly):
    out = {}
    for a, c in d.items():
        if poly:
            if a[i] > 0:
                b = tuple(x - (1 if j == i else 0) for j, x in enumerate(a))
                out[b] = out.get(b, F(0)) + c * a[i]
        else:
            out[a] = out.get(a, F(0)) + c * a[i]
    return {k: v for k, v in out.items() if v != 0}


def d_eval(d, chi):
    return sum((c * chi(a) for a, c in d.items()), F(0))


def chi_poly(x):
    def chi(a):
        r = F(1)
        for xi, ai in zip(x, a):
            r *= xi ** int(ai)
        return r
    return chi


def chi_sig(k):
    def chi(a):
        e = 2 * sum(ai * ki for ai, ki in zip(a, k))
        assert e.denominator == 1
        return F(2) ** int(e)
    return chi


def repr_dict(o):
    rows = [tuple(F(x) for x in r) for r in o['alpha']]
    d = {}
    for r, v in zip(rows, o['c']):
        d[r] = d.get(r, F(0)) + F(v)
    return {k: v for k, v in d.items() if v != 0}, len(set(rows)) == len(rows)


def oracle_grad(c, io):
    try:
        n, d, poly = ref_dict(c['t'])
    except st.RefError:
        return None
    if 'raises' in io:
        return 'grad raised %s' % io['raises']
    if len(io['grad']) != n:
        return 'grad has the wrong length'
    for i, g in enumerate(io['grad']):
        got, uniq = repr_dict(g)
        if not uniq:
            return 'partial %d has repeated exponent rows' % i
        if got != d_partial(d, i, poly):
            return 'grad[%d] is not the partial derivative' % i
    return None


def oracle_hess(c, io):
    try:
        n, d, poly = ref_dict(c['t'])
    except st.RefError:
        return None
    if 'raises' in io:
        return 'hess raised %s' % io['raises']
    for i in range(n):
        for j in range(n):
            got, _ = repr_dict(io['hess'][i][j])
            if got != d_partial(d_partial(d, i, poly), j, poly):
                return 'hess[%d,%d] is not the second partial derivative' % (i, j)
    return None


def oracle_vals(c, io):
    try:
        n, d, poly = ref_dict(c['t'])
    except st.RefError:
        return None
    if 'raises' in io:
        return 'evaluation raised %s (%s)' % (io['raises'], io.get('msg', '')[:80])
    chi = chi_poly([F(v) for v in c['x']]) if poly else chi_sig(c['k'])

    def same(a, q):
        return (F(a) == q) if poly else close(a, q)
    if not same(io['val'], d_eval(d, chi)):
        return 'f(x) = %s but the exact value is %s' % (io['val'], d_eval(d, chi))
    for i in range(n):
        want = d_eval(d_partial(d, i, poly), chi)
        if not same(io['grad'][i], want):
            return 'grad_val[%d] = %s but the derivative is %s' % (i, io['grad'][i], want)
        if not poly and not same(io['grad_sym'][i], want):
            return 'grad[%d](x) = %s but the derivative is %s' % (i, io['grad_sym'][i], want)
    if isinstance(io['hess'], dict):
        return 'hess_val raised %s (%s)' % (io['hess']['raises'], io['hess'].get('msg', ''))
    if not poly and io.get('hess_shape') != [n, n]:
        return 'hess_val has shape %s' % io.get('hess_shape')
    for i in range(n):
        for j in range(n):
            want = d_eval(d_partial(d_partial(d, i, poly), j, poly), chi)
            if not same(io['hess'][i][j], want):
                return 'hess_val[%d,%d] = %s but the second derivative is %s' % (i, j, io['hess'][i][j], want)
            if not poly and not same(io['hess_sym'][i][j], want):
                return 'hess[%d,%d](x) = %s but the second derivative is %s' % (i, j, io['hess_sym'][i][j], want)
    return None


def oracle_shift(c, io):
    try:
        n, d, poly = ref_dict(c['t'])
    except st.RefError:
        return None
    if 'raises' in io:
        return 'shift_coordinates raised %s' % io['raises']
    if io.get('stale'):
        return 'after f.grad / f.hess / f.alpha_c were used, f.shift_coordinates(x0) returns an object whose %s still belong to f' % ', '.join(io['stale'])
    rows = [tuple(F(x) for x in r) for r in io['alpha']]
    got = {}
    for r, v in zip(rows, io['c']):
        got[r] = got.get(r, 0.0) + v
    w = chi_sig(c['k'])
    want = {a: cc * w(a) for a, cc in d.items()}
    for a in set(got) | set(want):
        if not close(got.get(a, 0.0), want.get(a, F(0))):
            return 'shifted coefficient at %s is %s, expected c*e^{alpha.x0} = %s' % ([str(x) for x in a], got.get(a, 0.0), want.get(a, F(0)))
    return None


def oracle_conv(c, io):
    try:
        n, d, poly = ref_dict(c['t'])
    except st.RefError:
        return None
    ok_as_poly = all(x >= 0 and x.denominator == 1 for a in d for x in a)
    if 'raises' in io:
        if poly or ok_as_poly:
            # the representation may carry an explicit zero term with a non-polynomial exponent: then raising is legitimate
            try:
                f = st.build(c['t'])
                if not poly and not (np.all(f.alpha % 1 == 0) and np.all(f.alpha >= 0)):
                    return None
            except Exception:  # noqa: BLE001
                return None
            return 'conversion raised %s' % io['raises']
        return None
    got, _ = repr_dict(io)
    if got != d or io['poly'] == poly:
        return 'conversion changed the coefficients / did not change the class'
    return None


def oracle_compose(c, io):
    try:
        n, dp, _ = ref_dict(c['p'])
        zs = [ref_dict(z) for z in c['zs']]
    except st.RefError:
        return None
    if 'raises' in io:
        return 'p(z) raised %s (%s)' % (io['raises'], io.get('msg', '')[:80])
    nz = zs[0][0]
    res = {}
    for a, cc in dp.items():
        term = {tuple([F(0)] * nz): cc}
        for (_, dz, _), ai in zip(zs, a):
            for _ in range(int(ai)):
                term = st.ref_mul(term, dz)
        for k, v in term.items():
            res[k] = res.get(k, F(0)) + v
    res = st.ref_clean(res)
    if 'alpha' not in io:
        return 'p(z) is not a Polynomial'
    got, uniq = repr_dict(io)
    if got != res:
        return 'p(z) does not represent the composed polynomial'
    return None


# ---------------------------------------------------------------- the check

def numeric_stream(ctx, stream, cases, impl_fn, line_fn, fields):
    """value-level comparison (floats vs exact rationals) -- not an exact diff"""
    outs = [common.impl_call(impl_fn, c) for c in cases]
    mouts = run_driver([line_fn(c) for c in cases])
    res = []
    for c, io, mo in zip(cases, outs, mouts):
        ctx.case({'stream': stream, 'case': c})
        ctx.count('stream:' + stream)
        bad = False
        if ('raises' in io) != ('raises' in mo):
            bad = True
        elif 'raises' not in io:
            for fld in fields:
                a, b = io.get(fld), mo.get(fld)
                if a is None or b is None or isinstance(a, dict):
                    bad = bad or (fld in ('val', 'grad', 'c')) or isinstance(a, dict)
                    continue
                fa = np.asarray(a, dtype=float).ravel()
                fb = [float(F(v)) for v in (np.asarray(b, dtype=object).ravel().tolist())]
                if len(fa) != len(fb) or any(not close(x, y) for x, y in zip(fa, fb)):
                    bad = True
        if bad:
            ctx.disagreement(stream, c, io, mo)
        else:
            ctx.traces_validated += 1
        res.append((c, io, mo))
    return res


def run(ctx):
    rng = ctx.rng
    ctx.lean = common.lean_check('C14')
    common.run_regressions(ctx, 'C14', lambda r: recheck(r))
    quick = ctx.quick()
    N = 250 if quick else 2500
    corpus = common.load_corpus('C14')
    fcases, vcases_p, vcases_s, shifts, convs, comps, mats = [], [], [], [], [], [], []
    for c in corpus:
        {'vals_sig': vcases_s, 'vals_poly': vcases_p, 'grad': fcases}.get(c.get('stream'), fcases).append(c)
    for _ in range(N):
        n = rng.randint(1, 4)
        poly = rng.random() < 0.5
        t = leaf(rng, n, poly)
        fcases.append({'t': t})
        if poly:
            vcases_p.append({'t': t, 'x': [frac_str(F(rng.randint(-4, 4), rng.choice([1, 2]))) for _ in range(n)]})
            cols = [[frac_str(F(rng.randint(-3, 3), rng.choice([1, 2]))) for _ in range(n)] for _ in range(rng.randint(1, 4))]
            mats.append({'t': t, 'cols': cols})
            if rng.random() < 0.4:
                mats.append({'t': t, 'cols': [[frac_str(F(rng.randint(-3, 3))) for _ in range(n)] for _ in range(rng.randint(2, 4))],
                             'int_points': True})
        elif half_integer_exponents(t):
            # evaluation / shift points are ln(4) k: e^{alpha.x} is an exact power of two only for half-integer exponents
            k = [rng.randint(-2, 2) for _ in range(n)]
            vcases_s.append({'t': t, 'k': k})
            shifts.append({'t': t, 'k': [rng.randint(-2, 2) for _ in range(n)]})
        convs.append({'t': t})
    for _ in range(N // 2):
        n = rng.randint(1, 3)
        nz = rng.randint(1, 2)
        p = st.gen_leaf(rng, n, True, tiny=False)           # products of tiny coefficients are not float-exact
        zs = [st.gen_leaf(rng, nz, True, tiny=False) for _ in range(n)]
        comps.append({'p': p, 'zs': zs})
    r_g = correspond(ctx, 'grad', fcases, impl_grad, lambda c: {'op': 'calc.grad', 't': st.strip_types(c['t'])},
                     nontrivial=lambda c, o: True)
    r_h = correspond(ctx, 'hess', fcases, impl_hess, lambda c: {'op': 'calc.hess', 't': st.strip_types(c['t'])},
                     nontrivial=lambda c, o: True)
    r_c = correspond(ctx, 'conv', convs, impl_conv, lambda c: {'op': 'calc.conv', 't': st.strip_types(c['t'])},
                     canon=lambda o: {k: o[k] for k in ('poly', 'n', 'alpha', 'c')} if 'alpha' in o else o,
                     nontrivial=lambda c, o: True)
    r_k = correspond(ctx, 'compose', comps, impl_compose,
                     lambda c: {'op': 'calc.compose', 'p': st.strip_types(c['p']), 'zs': [st.strip_types(z) for z in c['zs']]},
                     canon=lambda o: {k: o[k] for k in ('poly', 'n', 'alpha', 'c')} if 'alpha' in o else o,
                     nontrivial=lambda c, o: True)
    r_vp = correspond(ctx, 'vals_poly', vcases_p, impl_vals,
                      lambda c: {'op': 'calc.vals', 't': st.strip_types(c['t']), 'x': c['x']}, nontrivial=lambda c, o: True)
    r_vs = numeric_stream(ctx, 'vals_sig', vcases_s, impl_vals,
                          lambda c: {'op': 'calc.vals', 't': st.strip_types(c['t']), 'k': c['k']},
                          ['val', 'grad', 'hess', 'grad_sym', 'hess_sym'])
    r_s = numeric_stream(ctx, 'shift', shifts, impl_shift,
                         lambda c: {'op': 'calc.shift', 't': st.strip_types(c['t']), 'k': c['k']}, ['c'])
    # matrices of points: implementation alone (columns) + the model's per-column values
    for c in mats:
        io = common.impl_call(impl_matrix, c)
        ctx.case({'stream': 'matrix', 'case': c})
        ctx.count('stream:matrix')
        if 'raises' in io:
            ctx.violation('evaluation on a matrix of points raised %s' % io['raises'], {'stream': 'matrix', 'case': c, 'observed': io})
        elif io['matrix'] != io['each']:
            ctx.violation('evaluation on a matrix of points differs from evaluation on each column',
                          {'stream': 'matrix', 'case': c, 'observed': io})
        else:
            try:
                n, d, poly = ref_dict(c['t'])
                want = [frac_str(d_eval(d, chi_poly([F(v) for v in col]))) for col in c['cols']]
                # float64 evaluation is exact only while every term stays below 2^53; beyond that (high powers of powers) the value
                # is compared relative to the size of the terms that are added up (cancellation)
                bad = False
                for col, w, g in zip(c['cols'], want, io['matrix']):
                    if w == g:
                        continue
                    chi = chi_poly([F(v) for v in col])
                    size = sum(abs(F(cv) * chi(k)) for k, cv in d.items())
                    # (exact in float64 only while size x common denominator stays below 2^53: a coefficient 1/64 in front of terms of
                    # size 2^47 already needs 54 bits; a few units in the last place of `size` are rounding, anything more is wrong)
                    if abs(F(w) - F(g)) > F(1, 2 ** 49) * size:
                        bad = True
                if bad:
                    ctx.violation('evaluation on a matrix of points: wrong values', {'stream': 'matrix', 'case': c, 'observed': io, 'want': want})
            except st.RefError:
                pass
    for (results, oracle, what, stream) in ((r_g, oracle_grad, 'grad', 'grad'), (r_h, oracle_hess, 'hess', 'hess'),
                                            (r_c, oracle_conv, 'conversion', 'conv'), (r_k, oracle_compose, 'composition', 'compose'),
                                            (r_vp, oracle_vals, 'polynomial values', 'vals_poly'),
                                            (r_vs, oracle_vals, 'signomial values', 'vals_sig'),
                                            (r_s, oracle_shift, 'shift_coordinates', 'shift')):
        for c, io, mo in results:
            why = oracle(c, io)
            if why:
                ctx.violation('%s: %s' % (what, why), {'stream': stream, 'case': c, 'observed': io, 'model': mo})
    if (not ctx.lean.ok or ctx.disagreements) and not ctx.violations:
        common.broken_report(ctx, 'exact rational derivatives found no failing input among %d cases' % ctx.evaluations)
    return ctx.finish(
        level='proof',
        rule='random Signomials/Polynomials (n <= 4, repeated rows, zero and constant functions, small arithmetic trees): grad and hess '
             'at representation level; values, grad_val, hess_val at rational points (polynomials, exact) and at x = ln4*k '
             '(signomials, 1e-9 relative); shift_coordinates; as_polynomial/as_signomial; p(z) for polynomial vectors z; '
             'matrices of points; distinct = distinct canonical JSON',
        trusted=TRUSTED, assumptions=ASSUME)


def replay(obj):
    r = obj['replay']
    c = r['case']
    table = {'grad': (impl_grad, oracle_grad), 'hess': (impl_hess, oracle_hess), 'conv': (impl_conv, oracle_conv),
             'compose': (impl_compose, oracle_compose), 'vals_poly': (impl_vals, oracle_vals), 'vals_sig': (impl_vals, oracle_vals),
             'shift': (impl_shift, oracle_shift)}
    if r['stream'] == 'matrix':
        out = common.impl_call(impl_matrix, c)
        why = None if ('raises' not in out and out['matrix'] == out['each']) else 'matrix evaluation differs from column evaluation'
    else:
        fn, oracle = table[r['stream']]
        out = common.impl_call(fn, c)
        why = oracle(c, out)
    print('case:', common.canon_json(c))
    print('implementation returned:', common.canon_json(out))
    print('oracle:', why or 'ok')
    return 1 if why else 0


recheck = common.recheck_via_replay(replay)
