"""
C06 -- SAGE is exact on one-negative-term signomials; bounds ignore reparametrisation.

Model: the SAGE row model (Model/Sage.lean) + the semantic AGE certificate (Lemmas/AgeCert.lean); theorems: Props/C06.lean
(invariance of the certificate under translation, invertible linear change of variables, positive scaling, exponent shift,
re-indexing; larger covers only help; circuit completeness with the closed-form circuit number).
Tie (structure): the cover helper of the real PrimalSageCone on circuit signomials and their transformed copies (permuted rows,
unimodular change of variables) vs the model's cover helper (the cover presolve is where exactness can silently be lost).
Audit (the real solver, ECOS):
  circuits    sage_feasibility succeeds iff beta < circuit number (closed form), level-0 bound = closed form;
  boxes       one-negative-term signomials over compact boxes: rigorous enclosure [lo, hi] of min_X f by grid + Lipschitz; feasibility
              must succeed when lo > 0 and fail when hi < 0; posynomial + constant: bound inside the enclosure;
  invariance  bound(f) = bound(f after permuting terms / translating x / unimodular change of variables); bound(a f + k) = a bound(f) + k;
  monotone    bound at ell <= bound at ell + 1 (X = R^n); bound over X' >= bound over X for X' a sub-box of X.
"""
import itertools
import math
from fractions import Fraction as F

import numpy as np

import common
import relaxmodel as rm
import sagemodel as sm
import sigtree as st
from common import frac_str, run_driver

TRUSTED = [
    'Lean 4.33.0 kernel; axioms of every theorem in Props/C06*.lean within {propext, Classical.choice, Quot.sound}',
    'harness/props/c06.py (closed-form circuit number in floating point, grid + Lipschitz enclosures with outward margins)',
    'ECOS (statuses other than solved are inconclusive; tolerance 1e-5 relative on values, decisions only outside a 1e-3 margin)',
]
ASSUME = [
    'completeness of AGE certificates for general one-negative-term signomials over a convex X (the converse of soundness) is convex '
    'duality and is NOT proved: proved are soundness (C01), completeness for circuits through the closed-form circuit number, and the '
    'invariances; exactness over boxes is audited with rigorous enclosures',
    'monotonicity in ell and in X is audited, not proved (the certificate for ell + 1 is the product with the modulator: the algebra of '
    'the consolidated product is C03\'s model)',
]
TOL = 1e-5


def close(a, b, tol=TOL):
    if math.isinf(a) or math.isinf(b):
        return a == b
    return abs(a - b) <= tol * max(1.0, abs(a), abs(b))


def gen_circuit(rng):
    """outer exponents: vertices of a simplex in R^n (one of them 0), inner = rational convex combination; returns dict"""
    n = rng.randint(1, 2)
    if n == 1:
        outer = [[F(0)], [F(rng.choice([2, 3, 4]))]]
        if rng.random() < 0.3:
            outer = [[F(-rng.randint(1, 2))], [F(rng.randint(1, 3))]]
    else:
        style = rng.random()
        if style < 0.5:
            outer = [[F(0), F(0)], [F(rng.choice([2, 4])), F(0)], [F(0), F(rng.choice([2, 4]))]]
        else:
            a, b = rng.randint(1, 3), rng.randint(1, 3)
            outer = [[F(0), F(0)], [F(b), F(-a)], [F(2 * a - b), F(2 * b + a)]]       # mixed signs, inner (a, b) orthogonal to one vertex
    k = len(outer)
    if n == 2 and outer[1][1] < 0:
        lam = [F(0), F(1, 2), F(1, 2)]
    else:
        w = [rng.randint(1, 3) for _ in range(k)]
        lam = [F(x, sum(w)) for x in w]
    inner = [sum(l * o[j] for l, o in zip(lam, outer)) for j in range(n)]
    c = [F(rng.choice([1, 2, 3, 4])) for _ in range(k)]
    theta = 1.0
    for l, cj in zip(lam, c):
        if l > 0:
            theta *= (float(cj) / float(l)) ** float(l)
    return {'n': n, 'outer': outer, 'lam': lam, 'inner': inner, 'c': c, 'theta': theta}


def circuit_sig(circ, beta):
    rows = [list(r) for r in circ['outer']] + [list(circ['inner'])]
    c = list(circ['c']) + [F(-beta).limit_denominator(10 ** 6) if not isinstance(beta, F) else -beta]
    return rm.sig_leaf(rows, c)


def covers_as_documented(leaf, box, lagrangian=False):
    """True when the cover helper of the real constraint equals the model's (i.e. the documented reduction rule explains the covers)"""
    import sageopt.coniclifts as cl
    from sageopt.coniclifts.base import ScalarExpression
    f = st.build(leaf).without_zeros()
    X = rm.build_sig_domain(leaf['n'], box)
    if lagrangian:
        f = f - cl.Variable(name='c06gamma_k')
    try:
        con = cl.PrimalSageCone(f.c, f.alpha, X, 'c06k')
    except Exception:  # noqa: BLE001
        return False
    signs = []
    for se in (f.c.flat if hasattr(f.c, 'flat') else f.c):
        if isinstance(se, ScalarExpression) and len(se.atoms_to_coeffs) > 0:
            signs.append('nonconst')
        else:
            v = float(se.offset) if isinstance(se, ScalarExpression) else float(se)
            signs.append('neg' if v < 0 else ('pos' if v > 0 else 'zero'))
    mo = run_driver([{'op': 'sage.ech', 'alpha': st.mat_json(f.alpha), 'signs': signs, 'hasX': X is not None, 'settings': sm.DEFAULTS}])[0]
    return common.canon_json(sm.ech_json(con.ech)) == common.canon_json(mo)


def solve_feas(leaf, box=None, warm=False):
    import sageopt as so
    f = st.build(leaf)
    if warm and box is not None:
        # the same signomial over all of R^n first, in the same process (a model is often relaxed without and then with its domain):
        # what that build leaves behind must not leak into the build over the box
        try:
            so.sage_feasibility(st.build(leaf))
            so.sig_relaxation(st.build(leaf), form='primal')
        except RuntimeError:
            pass
    X = rm.build_sig_domain(leaf['n'], box)
    try:
        prob = so.sage_feasibility(f, X=X)
    except RuntimeError as e:
        if 'This SAGE constraint is infeasible' in str(e):
            return 'solved', -math.inf
        return 'raised:RuntimeError', float('nan')
    return rm.solve_ecos(prob)


def solve_bound(leaf, box=None, form='primal', ell=0, warm=False):
    import sageopt as so
    f = st.build(leaf)
    if warm and box is not None:
        try:
            so.sig_relaxation(st.build(leaf), form=form, ell=ell)
        except RuntimeError:
            pass
    X = rm.build_sig_domain(leaf['n'], box)
    try:
        prob = so.sig_relaxation(f, X=X, form=form, ell=ell)
    except RuntimeError as e:
        if 'This SAGE constraint is infeasible' in str(e) and form == 'primal':
            return 'solved', -math.inf
        return 'raised:RuntimeError', float('nan')
    return rm.solve_ecos(prob)


# ------------------------------------------------------------------------------------------------

def stream_circuits(ctx, rng, N, given=None):
    for circ in (given if given is not None else [gen_circuit(rng) for _ in range(N)]):
        th = circ['theta']
        lam0 = float(circ['lam'][0])
        for rel in (0.5, 0.98, 1.02, 1.5):
            beta = F(th * rel).limit_denominator(10 ** 6)
            leaf = circuit_sig(circ, beta)
            case = {'stream': 'circuit', 'leaf': leaf, 'theta': th, 'rel': rel}
            ctx.case(case, nontrivial=True)
            ctx.count('stream:circuit')
            s, v = solve_feas(leaf)
            if s != 'solved':
                ctx.incon('circuit: feasibility status %s' % s)
            else:
                feasible = v > -math.inf
                if feasible != (rel < 1):
                    ctx.violation('exactness: circuit signomial with beta = %.4f x (circuit number %.6g) is %s, but sage_feasibility reports %s'
                                  % (rel, th, 'nonnegative' if rel < 1 else 'negative somewhere', 'feasible' if feasible else 'infeasible'), case)
                    continue
            # level-0 bound: closed form when the constant term is one of the outer exponents with positive weight
            if all(x == 0 for x in circ['outer'][0]) and lam0 > 0:
                rest = 1.0
                for l, cj in list(zip(circ['lam'], circ['c']))[1:]:
                    if l > 0:
                        rest *= (float(cj) / float(l)) ** float(l)
                # f - gamma >= 0  iff  beta <= ((c0 - gamma)/lam0)^lam0 * rest
                gamma = float(circ['c'][0]) - lam0 * (float(beta) / rest) ** (1.0 / lam0)
                for form in ('primal', 'dual'):
                    s, v = solve_bound(leaf, form=form)
                    if s != 'solved':
                        ctx.incon('circuit: bound status %s' % s)
                        continue
                    ctx.count('circuit:bound')
                    if not close(v, gamma, 1e-4):
                        ctx.violation('exactness: level-0 %s bound %.8g of a circuit signomial differs from the closed form %.8g' % (form, v, gamma),
                                      dict(case, form=form, closed_form=gamma))
                        break


def lipschitz_enclosure(leaf, box, grid=40):
    """[lo, hi] enclosing min over the box, by a grid and the Lipschitz constant of f on the box"""
    a = np.array([[float(F(v)) for v in r] for r in leaf['alpha']], dtype=float)
    c = np.array([float(F(v)) for v in leaf['c']], dtype=float)
    lo_b = np.array([float(F(x)) for x in box['lo']])
    hi_b = np.array([float(F(x)) for x in box['hi']])
    n = len(lo_b)
    # sup-norm bound of the gradient: sum_j |c_j| |alpha_j|_1 max_box e^{alpha_j x}
    emax = np.exp(np.maximum(a * lo_b, a * hi_b).sum(axis=1))
    L = float(np.sum(np.abs(c) * np.abs(a).sum(axis=1) * emax))
    axes = [np.linspace(lo_b[i], hi_b[i], grid + 1) for i in range(n)]
    pts = np.array(list(itertools.product(*axes)))
    vals = np.exp(pts @ a.T) @ c
    h = float(np.max((hi_b - lo_b) / grid)) / 2.0
    return float(vals.min() - L * h), float(vals.min())


def gen_one_negative(rng):
    n = rng.randint(1, 2)
    m = rng.randint(2, 4)
    rows, seen = [[F(0)] * n], {tuple([F(0)] * n)}
    nonneg = rng.random() < 0.5            # nonnegative exponents with a zero row: the cover reduction's precondition holds
    if nonneg:
        m = min(m, 3 ** n)
    while len(rows) < m:
        r = tuple(F(rng.randint(0, 2) if nonneg else rng.randint(-2, 3)) for _ in range(n))
        if r not in seen:
            seen.add(r)
            rows.append(list(r))
    c = [F(rng.choice([1, 2, 3, 5])) for _ in rows]
    neg = rng.randrange(1, m)
    c[neg] = F(-rng.choice([1, 2, 4, 8]), rng.choice([1, 2]))
    c[0] = F(rng.choice([1, 2, 4, 8, 12]), rng.choice([1, 2]))
    return rm.sig_leaf(rows, c), rm.gen_box(rng, n, eqfirst=True)


def stream_boxes(ctx, rng, N, seen_boxes, given=None):
    for leaf, box in (given if given is not None else [gen_one_negative(rng) for _ in range(N)]):
        seen_boxes.append((leaf, box))
        lo, hi = lipschitz_enclosure(leaf, box)
        case = {'stream': 'box', 'leaf': leaf, 'box': box, 'enclosure': [lo, hi]}
        ctx.case(case, nontrivial=True)
        ctx.count('stream:box')
        scale = max(1.0, abs(lo), abs(hi))
        import zlib
        warm = zlib.crc32(common.canon_json(leaf).encode()) % 2 == 0        # (a fixed half of the cases, the same on every replay)
        if lo > 1e-3 * scale or hi < -1e-3 * scale:
            s, v = solve_feas(leaf, box, warm=warm)
            if s != 'solved':
                ctx.incon('box: feasibility status %s' % s)
            else:
                feasible = v > -math.inf
                ctx.count('box:decided')
                if feasible != (lo > 0):
                    tags = []
                    if lo > 0 and not feasible:
                        # the recorded finding F10: only if switching the heuristic cover reduction off alone restores the certificate
                        import sageopt.coniclifts as cl
                        cl.heuristic_reduce_cond_age_cones(False)
                        try:
                            s2, v2 = solve_feas(leaf, box)
                        finally:
                            cl.heuristic_reduce_cond_age_cones(True)
                        if s2 == 'solved' and v2 > -math.inf and covers_as_documented(leaf, box):
                            tags = ['F10-heuristic-reduction-infeasible-C06']
                    ctx.violation('exactness: a one-negative-term signomial with min over the box in [%.6g, %.6g] is reported %s by sage_feasibility'
                                  % (lo, hi, 'feasible' if feasible else 'infeasible'), case, tags=tags)
                    continue
        # posynomial + constant: make the negative term positive, move the sign to the constant
        pos = dict(leaf)
        pos['c'] = [frac_str(abs(F(x))) for x in leaf['c']]
        pos['c'][0] = frac_str(-abs(F(leaf['c'][0])))
        plo, phi = lipschitz_enclosure(pos, box)
        for form in ('primal', 'dual'):
            s, v = solve_bound(pos, box, form=form, warm=warm)
            if s != 'solved':
                ctx.incon('box: bound status %s' % s)
                continue
            ctx.count('box:posy-bound')
            sc = max(1.0, abs(plo), abs(phi))
            if v > phi + 1e-4 * sc or v < plo - 1e-4 * sc:
                tags = []
                if v < plo:
                    import sageopt.coniclifts as cl
                    cl.heuristic_reduce_cond_age_cones(False)
                    try:
                        s2, v2 = solve_bound(pos, box, form=form)
                    finally:
                        cl.heuristic_reduce_cond_age_cones(True)
                    if s2 == 'solved' and plo - 1e-4 * sc <= v2 <= phi + 1e-4 * sc and covers_as_documented(pos, box, lagrangian=True):
                        tags = ['F10-heuristic-reduction-infeasible-C06']
                ctx.violation('exactness: the level-0 %s bound %.8g of a posynomial plus a constant lies outside the enclosure [%.8g, %.8g] of its '
                              'minimum over the box' % (form, v, plo, phi), dict(case, posy=pos, form=form), tags=tags)
                break


def transform_perm(rng, leaf):
    idx = list(range(len(leaf['c'])))
    rng.shuffle(idx)
    return dict(leaf, alpha=[leaf['alpha'][i] for i in idx], c=[leaf['c'][i] for i in idx])


def transform_linear(rng, leaf):
    """x = M y with M unimodular (integer, det +-1): exponents alpha M"""
    n = leaf['n']
    if n == 1:
        M = [[F(rng.choice([1, -1]))]]
    else:
        k = rng.randint(-2, 2)
        M = rng.choice([[[F(1), F(k)], [F(0), F(1)]], [[F(1), F(0)], [F(k), F(1)]], [[F(0), F(1)], [F(1), F(0)]], [[F(1), F(k)], [F(0), F(-1)]]])
    if rng.random() < 0.4:
        # invertible, not unimodular: a change of units (also a drastic one: exponents of size 1e-4, exact in 7 decimals)
        sc = rng.choice([F(1, 2), F(3), F(1, 100), F(1, 20000), F(1, 50000)])
        M2 = [[x * sc for x in row] for row in M]
        rows2 = [[sum(F(r[i]) * M2[i][j] for i in range(n)) for j in range(n)] for r in leaf['alpha']]
        if all((x * 10 ** 7).denominator == 1 for r in rows2 for x in r):
            M = M2            # (the constructor rounds exponents to 7 decimals: only changes that survive it exactly are the same function)
    rows = [[sum(F(r[i]) * M[i][j] for i in range(n)) for j in range(n)] for r in leaf['alpha']]
    return dict(leaf, alpha=[[frac_str(x) for x in r] for r in rows])


def transform_translate(rng, leaf):
    """x -> x + t with e^{alpha.t} a power of two: coefficients c_j 2^{k.alpha_j} for integer exponents"""
    n = leaf['n']
    k = [rng.randint(-1, 1) for _ in range(n)]
    c = []
    for r, cj in zip(leaf['alpha'], leaf['c']):
        e = sum(F(a) * kk for a, kk in zip(r, k))
        if e.denominator != 1:
            return None
        c.append(frac_str(F(cj) * F(2) ** int(e)))
    return dict(leaf, c=c)


def gen_invariance_sig(rng):
    n = rng.randint(1, 2)
    leaf = rm.gen_sig(rng, n=n, m=rng.randint(3, 5))
    # integer exponents so that the transformations stay exact
    leaf['alpha'] = [[frac_str(F(int(F(x) * 2))) if F(x).denominator != 1 else x for x in r] for r in leaf['alpha']]
    uniq, seen = [], set()
    for r, c in zip(leaf['alpha'], leaf['c']):
        if tuple(r) not in seen:
            seen.add(tuple(r))
            uniq.append((r, c))
    leaf['alpha'], leaf['c'] = [u[0] for u in uniq], [u[1] for u in uniq]
    return leaf


def affine_via_library(leaf, a, k, want):
    import sageopt as so
    from sageopt.symbolic.signomials import Signomial
    alpha = np.array([[float(F(x)) for x in r] for r in leaf['alpha']], dtype=float)
    cs = [F(x) for x in leaf['c']]
    c = np.array([int(x) for x in cs]) if all(x.denominator == 1 for x in cs) else np.array([float(x) for x in cs])
    try:
        g = (Signomial(alpha, c) + float(F(k) / F(a))) * float(a)          # (the offset meets the integer-typed array first)
        s1, v1 = rm.solve_ecos(so.sig_relaxation(g, form='primal'))
    except Exception as e:  # noqa: BLE001
        return 'computing a * f + k with the library raised %s' % type(e).__name__
    if s1 == 'solved' and not close(v1, want, 1e-4):
        return 'bound(a f + k) = %.8g with a f + k formed by the library\'s arithmetic (a = %s, k = %s), but a bound(f) + k = %.8g' % (v1, a, k, want)
    return None


def stream_invariance(ctx, rng, N):
    ech_lines, ech_meta = [], []
    for t in range(N):
        if t % 3 == 0:
            circ = gen_circuit(rng)
            leaf = circuit_sig(circ, F(circ['theta'] * 0.8).limit_denominator(1000))
        else:
            leaf = gen_invariance_sig(rng)
        s0, v0 = solve_bound(leaf)
        case0 = {'stream': 'invariance', 'leaf': leaf}
        ctx.case(case0, nontrivial=True)
        ctx.count('stream:invariance')
        if s0 != 'solved':
            ctx.incon('invariance: base status %s' % s0)
            continue
        for name, tf in (('perm', transform_perm), ('linear', transform_linear), ('translate', transform_translate)):
            g = tf(rng, leaf)
            if g is None:
                continue
            s1, v1 = solve_bound(g)
            if s1 != 'solved':
                ctx.incon('invariance: %s status %s' % (name, s1))
                continue
            ctx.count('invariance:' + name)
            if not close(v0, v1, 1e-4):
                ctx.violation('invariance: the level-0 bound %.8g changes to %.8g after %s' % (v0, v1,
                              {'perm': 'permuting the terms', 'linear': 'an invertible linear change of variables', 'translate': 'translating x'}[name]),
                              {'stream': 'invariance', 'leaf': leaf, 'transformed': g, 'transform': name})
                break
            # cover helper of the transformed copy vs the model
            ech_lines.append(g)
        a, k = F(rng.choice([2, 3, 1]), rng.choice([1, 2])), F(rng.randint(-3, 3))
        zero = ['0'] * leaf['n']
        if zero in leaf['alpha'] and math.isfinite(v0):
            g = dict(leaf, c=[frac_str(a * F(c)) for c in leaf['c']])
            g['c'][g['alpha'].index(zero)] = frac_str(a * F(leaf['c'][leaf['alpha'].index(zero)]) + k)
            if all(F(c) != 0 for c in g['c']):
                s1, v1 = solve_bound(g)
                if s1 == 'solved':
                    ctx.count('invariance:affine')
                    want = float(a) * v0 + float(k)
                    if not close(v1, want, 1e-4):
                        ctx.violation('scaling: bound(a f + k) = %.8g but a bound(f) + k = %.8g (a = %s, k = %s)' % (v1, want, a, k),
                                      {'stream': 'invariance', 'leaf': leaf, 'transformed': g, 'transform': 'affine', 'a': str(a), 'k': str(k)})
                        continue
                    # the same through the library's own arithmetic, a * f + k', on a signomial whose coefficient array the caller
                    # typed as INTEGERS when all coefficients are integers (k' need not be an integer)
                    k2 = k + F(1, 2)
                    why = affine_via_library(leaf, a, k2, float(a) * v0 + float(k2))
                    ctx.count('invariance:affine-library')
                    if why:
                        ctx.violation('scaling: ' + why, {'stream': 'invariance', 'leaf': leaf, 'transform': 'affine-library', 'a': str(a), 'k': str(k2),
                                                          'want': float(a) * v0 + float(k2)})
    return ech_lines


def stream_covers(ctx, leaves):
    """the real cover helper on the (transformed) signomials vs the model's; entries are leaves or (leaf, box) pairs"""
    import sageopt.coniclifts as cl
    lines, impl = [], []
    for item in leaves:
        leaf, box = item if isinstance(item, tuple) else (item, None)
        f = st.build(leaf)
        f = f.without_zeros()
        gamma = cl.Variable(name='c06gamma')
        L = f - gamma
        X = rm.build_sig_domain(leaf['n'], box)
        try:
            con = cl.PrimalSageCone(L.c, L.alpha, X, 'c06')
        except Exception as e:  # noqa: BLE001
            continue
        io = sm.ech_json(con.ech)
        signs = []
        from sageopt.coniclifts.base import ScalarExpression
        for se in L.c.flat:
            if isinstance(se, ScalarExpression) and len(se.atoms_to_coeffs) > 0:
                signs.append('nonconst')
            else:
                v = float(se.offset) if isinstance(se, ScalarExpression) else float(se)
                signs.append('neg' if v < 0 else ('pos' if v > 0 else 'zero'))
        lines.append({'op': 'sage.ech', 'alpha': st.mat_json(L.alpha), 'signs': signs, 'hasX': X is not None, 'settings': sm.DEFAULTS})
        impl.append(({'leaf': leaf, 'box': box}, io))
    mouts = run_driver(lines)
    for (leaf, io), mo in zip(impl, mouts):
        if isinstance(mo, dict) and 'error' in mo:
            raise common.DriverError(mo['error'])
        ctx.case({'stream': 'covers', 'case': leaf}, nontrivial=True)
        ctx.count('stream:covers' + (':box' if leaf['box'] else ''))
        if common.canon_json(io) != common.canon_json(mo):
            ctx.disagreement('covers', leaf, io, mo)
        else:
            ctx.traces_validated += 1


def stream_boxform(ctx, boxes):
    """the conic form (A, b, K) the real SigDomain of a non-degenerate box compiles to vs the model's `Domain.boxRowsF`, which
    `Props/C06Complete.boxRows_get` identifies with the `boxA`, `boxb` of the completeness theorem `box_exact`"""
    def impl(case):
        X = rm.build_sig_domain(case['n'], case['box'])
        A = X.A.toarray() if hasattr(X.A, 'toarray') else np.asarray(X.A)
        if A.shape[1] != case['n'] or any(co.type != '+' for co in X.K):
            return {'raises': 'not a plain box form: cols %d cones %s' % (A.shape[1], [(co.type, co.len) for co in X.K])}
        return {'A': [[frac_str(F(float(v))) for v in row] for row in A], 'b': [frac_str(F(float(v))) for v in X.b]}

    cases = [{'n': leaf['n'], 'box': box} for leaf, box in boxes if set(box.keys()) == {'lo', 'hi'}]
    seen, uniq = set(), []
    for c in cases:
        k = common.canon_json(c)
        if k not in seen:
            seen.add(k)
            uniq.append(c)
    common.correspond(ctx, 'boxform', uniq, impl, lambda c: {'op': 'domain.box_rows', 'lo': c['box']['lo'], 'hi': c['box']['hi']})


def stream_near_twins(ctx, rng, N):
    """posynomial plus a constant in one variable with TWO exponents that are close but distinct (relatively 5e-6 .. 5e-7 apart): the level-0
    bound is the infimum in both forms (`ordAge_bound_eq_inf`), whatever the order of the two terms"""
    for t in range(N):
        d = F(rng.choice([5, 50]), 10 ** 7)
        e1 = F(rng.choice([1, 2]))
        rows = [[e1], [e1 + d], [F(-1)], [F(0)]]
        cs = [F(rng.choice([2, 3])), F(rng.choice([1, 2])), F(rng.choice([1, 2])), F(rng.choice([0, 1]))]
        if rng.random() < 0.5:
            rows[0], rows[1] = rows[1], rows[0]
            cs[0], cs[1] = cs[1], cs[0]
        leaf = rm.sig_leaf(rows, cs)
        fl = lambda x: sum(float(c_) * math.exp(float(r_[0]) * x) for r_, c_ in zip(rows, cs))     # noqa: E731
        lo_, hi_ = -20.0, 20.0
        for _ in range(200):                  # the function is convex: ternary search
            m1, m2 = lo_ + (hi_ - lo_) / 3, hi_ - (hi_ - lo_) / 3
            if fl(m1) < fl(m2):
                hi_ = m2
            else:
                lo_ = m1
        fmin = fl((lo_ + hi_) / 2)
        case = {'stream': 'near-twins', 'leaf': leaf, 'min': fmin}
        ctx.case(case, nontrivial=True)
        ctx.count('stream:near-twins')
        for form in ('primal', 'dual'):
            s_, v_ = solve_bound(leaf, None, form=form)
            if s_ != 'solved':
                ctx.incon('near-twins: %s status %s' % (form, s_))
                continue
            if abs(v_ - fmin) > 1e-4 * max(1.0, abs(fmin)):
                ctx.violation('exactness: the level-0 %s bound %.8g of a posynomial plus a constant with two exponents %s apart differs from its '
                              'infimum %.8g' % (form, v_, frac_str(d), fmin), dict(case, form=form))
                break


def stream_monotone(ctx, rng, N):
    for _ in range(N):
        leaf = rm.gen_sig(rng, n=rng.randint(1, 2), m=rng.randint(3, 4))
        case = {'stream': 'monotone', 'leaf': leaf}
        ctx.case(case, nontrivial=True)
        ctx.count('stream:monotone')
        s0, v0 = solve_bound(leaf, ell=0)
        s1, v1 = solve_bound(leaf, ell=1)
        if s0 == 'solved' and s1 == 'solved':
            ctx.count('monotone:ell')
            if v1 < v0 - 1e-4 * max(1.0, abs(v0)) and not (math.isinf(v0) and v0 < 0):
                ctx.violation('monotonicity: the bound decreases from %.8g (ell = 0) to %.8g (ell = 1) on R^n' % (v0, v1), case)
                continue
        else:
            ctx.incon('monotone: ell statuses %s / %s' % (s0, s1))
        box = rm.gen_box(rng, leaf['n'])
        lo = [F(x) for x in box['lo']]
        hi = [F(x) for x in box['hi']]
        sub = {'lo': [frac_str(l + (h - l) / 4) for l, h in zip(lo, hi)], 'hi': [frac_str(h - (h - l) / 4) for l, h in zip(lo, hi)]}
        sb, vb = solve_bound(leaf, box)
        ss, vs = solve_bound(leaf, sub)
        if sb == 'solved' and ss == 'solved':
            ctx.count('monotone:X')
            if vs < vb - 1e-4 * max(1.0, abs(vb)):
                ctx.violation('monotonicity: the bound over the sub-box %s is %.8g, below the bound %.8g over the box %s' % (sub, vs, vb, box),
                              dict(case, box=box, sub=sub))
        else:
            ctx.incon('monotone: box statuses %s / %s' % (sb, ss))


def run(ctx):
    rng = ctx.rng
    ctx.lean = common.lean_check('C06')
    quick = ctx.quick()
    # pinned corpus (the recorded finding and fixed cases run first)
    for e in common.load_corpus('C06'):
        if 'leaf' in e and 'box' in e:
            lo, hi = lipschitz_enclosure(e['leaf'], e['box'])
            s, v = solve_feas(e['leaf'], e['box'])
            ctx.case({'stream': 'corpus', 'entry': e['note']})
            if s == 'solved' and lo > 0 and v == -math.inf:
                tags = []
                if e.get('tag'):
                    import sageopt.coniclifts as cl
                    cl.heuristic_reduce_cond_age_cones(False)
                    try:
                        s2, v2 = solve_feas(e['leaf'], e['box'])
                    finally:
                        cl.heuristic_reduce_cond_age_cones(True)
                    if s2 == 'solved' and v2 > -math.inf and covers_as_documented(e['leaf'], e['box']):
                        tags = [e['tag']]
                ctx.violation('exactness (corpus): %s: min over the box in [%.6g, %.6g] but sage_feasibility reports infeasible' % (e['note'][:60], lo, hi),
                              {'stream': 'corpus', 'entry': e}, tags=tags)
    common.run_regressions(ctx, 'C06', recheck)
    stream_circuits(ctx, rng, 10 if quick else 80)
    stream_near_twins(ctx, rng, 4 if quick else 30)
    boxes = []
    stream_boxes(ctx, rng, 40 if quick else 300, boxes)
    leaves = stream_invariance(ctx, rng, 20 if quick else 150)
    # many more boxes for the (cheap, solver-free) comparison of the cover helper; failing-input search on the disagreeing ones
    extra = [gen_one_negative(rng) for _ in range(250 if quick else 2000)]
    before = len(ctx.disagreements)
    stream_covers(ctx, leaves + boxes + extra)
    stream_boxform(ctx, boxes + extra)
    for d in ctx.disagreements[before:before + 12]:
        leaf, box = d['case']['leaf'], d['case']['box']
        if box is None:
            continue
        # make the instance comfortably positive on the box (raise the constant) and ask for the certificate
        lo, hi = lipschitz_enclosure(leaf, box)
        zero = ['0'] * leaf['n']
        if zero not in leaf['alpha']:
            continue
        k = leaf['alpha'].index(zero)
        for bump in (0, 1, 4):
            g = dict(leaf, c=list(leaf['c']))
            g['c'][k] = frac_str(F(leaf['c'][k]) + F(math.ceil(max(0.0, -lo))) + bump + (1 if lo <= 0 else 0))
            glo, ghi = lipschitz_enclosure(g, box)
            if glo <= 1e-3:
                continue
            s_, v_ = solve_feas(g, box)
            ctx.count('stream:box-targeted')
            if s_ == 'solved' and v_ == -math.inf:
                tags = []
                ctx.violation('exactness: a one-negative-term signomial with min over the box in [%.6g, %.6g] is reported infeasible by sage_feasibility'
                              % (glo, ghi), {'stream': 'box', 'leaf': g, 'box': box, 'enclosure': [glo, ghi]}, tags=tags)
                break
        if len(ctx.violations) >= 3:
            break
    stream_monotone(ctx, rng, 10 if quick else 80)
    if (not ctx.lean.ok or ctx.disagreements) and not ctx.violations:
        common.broken_report(ctx, 'closed-form, enclosure and metamorphic audits found no failing input')
    return ctx.finish(
        level='proof',
        rule='random circuits in R^1 / R^2 (simplex vertices incl. mixed-sign ones, rational barycentric weights) at beta = 0.5, 0.98, 1.02, 1.5 x '
             'circuit number; one-negative-term signomials over boxes with grid + Lipschitz enclosures; permutation / unimodular change / '
             'translation by powers of two / affine scaling of random signomials with integer exponents; ell 0 vs 1; box vs sub-box; '
             'non-trivial = every case; distinct = distinct JSON',
        trusted=TRUSTED, assumptions=ASSUME)


def recheck(r):
    """execute the stored input of a violation again; the violation it (still) shows, or None"""
    import random
    ctx, rng = common.RecCtx(), random.Random(0)
    k = r.get('stream')
    if k == 'circuit':
        if 'form' in r and 'closed_form' in r:
            s_, v_ = solve_bound(r['leaf'], form=r['form'])
            if s_ == 'solved' and not close(v_, r['closed_form'], 1e-4):
                return 'exactness: level-0 %s bound %.8g of a circuit signomial differs from the closed form %.8g' % (r['form'], v_, r['closed_form'])
        else:
            s_, v_ = solve_feas(r['leaf'])
            if s_ == 'solved' and (v_ > -math.inf) != (r['rel'] < 1):
                return 'exactness: circuit signomial with beta = %.4f x circuit number: sage_feasibility reports %s' % (
                    r['rel'], 'feasible' if v_ > -math.inf else 'infeasible')
    elif k == 'box':
        stream_boxes(ctx, rng, 0, [], given=[(r['leaf'], r['box'])])
    elif k == 'near-twins':
        for form in ([r['form']] if 'form' in r else ['primal', 'dual']):
            s_, v_ = solve_bound(r['leaf'], None, form=form)
            if s_ == 'solved' and abs(v_ - r['min']) > 1e-4 * max(1.0, abs(r['min'])):
                return 'exactness: the level-0 %s bound %.8g of a posynomial plus a constant with two close exponents differs from its infimum %.8g' % (form, v_, r['min'])
    elif k == 'invariance' and r.get('transform') == 'affine-library':
        return (lambda w: ('scaling: ' + w) if w else None)(affine_via_library(r['leaf'], F(r['a']), F(r['k']), r['want']))
    elif k == 'corpus':
        e = r['entry']
        lo, hi = lipschitz_enclosure(e['leaf'], e['box'])
        s_, v_ = solve_feas(e['leaf'], e['box'])
        if s_ == 'solved' and lo > 0 and v_ == -math.inf:
            tagged = False
            if e.get('tag'):
                import sageopt.coniclifts as cl
                cl.heuristic_reduce_cond_age_cones(False)
                try:
                    s2, v2 = solve_feas(e['leaf'], e['box'])
                finally:
                    cl.heuristic_reduce_cond_age_cones(True)
                tagged = s2 == 'solved' and v2 > -math.inf and covers_as_documented(e['leaf'], e['box'])
            known = {x.get('id') for x in common.load_known_findings('C06') if x.get('status') == 'known'}
            if not (tagged and e.get('tag') in known):
                return 'exactness (corpus): min over the box in [%.6g, %.6g] but sage_feasibility reports infeasible' % (lo, hi)
        return None
    elif k == 'invariance':
        s0, v0 = solve_bound(r['leaf'])
        s1, v1 = solve_bound(r['transformed'])
        if s0 == 'solved' and s1 == 'solved':
            want = v0 if r['transform'] != 'affine' else float(F(r['a'])) * v0 + float(F(r['k']))
            if not close(v1, want, 1e-4):
                return 'invariance: the level-0 bound %.8g of the transformed signomial (%s) should be %.8g' % (v1, r['transform'], want)
    elif k == 'monotone':
        if 'sub' in r:
            sb, vb = solve_bound(r['leaf'], r['box'])
            ss, vs = solve_bound(r['leaf'], r['sub'])
            if sb == 'solved' and ss == 'solved' and vs < vb - 1e-4 * max(1.0, abs(vb)):
                return 'monotonicity: the bound over the sub-box is %.8g, below the bound %.8g over the box' % (vs, vb)
        else:
            s0, v0 = solve_bound(r['leaf'], ell=0)
            s1, v1 = solve_bound(r['leaf'], ell=1)
            if s0 == 'solved' and s1 == 'solved' and v1 < v0 - 1e-4 * max(1.0, abs(v0)) and not (math.isinf(v0) and v0 < 0):
                return 'monotonicity: the bound decreases from %.8g (ell = 0) to %.8g (ell = 1) on R^n' % (v0, v1)
    # violations that carry the tag of a recorded finding are that finding, not a new failure of the stored input
    return ctx.first('C06')


def replay(obj):
    print('what:', obj['what'])
    print(common.canon_json(obj['replay'])[:1500])
    return 1
