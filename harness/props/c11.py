"""
C11 -- compiling and solving never change what a model means.

Model: lean/SageoptModel/Model/Recompile.lean (compilation as a state transformer on constraint objects);
theorems: Props/C11.lean.
Tie: random HISTORIES over shared constraint / Variable objects -- compile (sub)lists, build Problems, solve,
create unrelated Variables, pickle/unpickle everything, clear_variable_indices followed by a mixed-generation
model, flip the global SAGE defaults between construction and compilation.  At every compile the serialised
pre-state goes through the model's `compileStep`; blocks, variable map AND the post-state of the constraint
objects are compared with what the implementation did.
Oracle: every compile / solve in the history is compared with a freshly rebuilt copy of the same model
(cone signature, row count, optimal value).
"""
import pickle
import random
import warnings
from collections import Counter

import numpy as np

import clmodel as clm
import common
from common import run_driver
from props import c07

TRUSTED = [
    'Lean 4.33.0 kernel; axioms of every theorem in Props/C11*.lean within {propext, Classical.choice, Quot.sound}',
    'harness/props/c11.py (history generator, rebuild-from-seed recipe), harness/clmodel.py (serialisation of object state)',
    'CPython pickle; ECOS for the optimal values compared between a history and its fresh copy (tolerance 1e-6, failures inconclusive)',
]
ASSUME = [
    'constraints in the history streams are convex (C07) and ECOS-representable',
    'the SAGE settings-snapshot clause is exercised on the implementation and through the C01/C02 models of the SAGE constraints',
]


def ser_state(cons):
    """the state later compilations read: every constraint's own expressions (not the compiler's linearised copy)"""
    return [clm.ser_con(c) for c in cons]


def strip_state(ser):
    return clm.strip_for_model(ser)


def canon_post(ser):
    """the mutable part of the state, as the model reports it"""
    out = []
    for s in ser:
        if s['cls'] == 'elem':
            rows = [{'terms': [[{k: v for k, v in ref.items() if k != 'epiname'}, c] for ref, c in r['terms']], 'off': r['off']}
                    for r in s['rows']]
            out.append({'cls': 'elem', 'eq': s['eq'], 'rows': rows})
        else:
            out.append({'cls': 'setmem'})
    return out


def mentioned_ids(x, acc=None):
    acc = set() if acc is None else acc
    if isinstance(x, dict):
        if 'v' in x and isinstance(x['v'], int):
            acc.add(x['v'])
        if 'co' in x and isinstance(x['co'], list):
            for pair in x['co']:
                if isinstance(pair, (list, tuple)) and pair and isinstance(pair[0], int):
                    acc.add(pair[0])
        for v in x.values():
            mentioned_ids(v, acc)
    elif isinstance(x, (list, tuple)):
        for v in x:
            mentioned_ids(v, acc)
    return acc


def mentioned_scalars(cons):
    """(id, generation) of every ScalarVariable that occurs in the constraints' expressions (ids restart after
    clear_variable_indices, so the id alone does not identify a component)"""
    from sageopt.coniclifts.base import ScalarVariable, ScalarExpression
    acc = set()

    def se_scan(se):
        if not isinstance(se, ScalarExpression):
            return
        for a in se.atoms_to_coeffs:
            if isinstance(a, ScalarVariable):
                acc.add((int(a.id), int(a._generation)))
            else:
                for arg in a.args:
                    for sv, _ in arg[:-1]:
                        acc.add((int(sv.id), int(sv._generation)))
    for c in cons:
        for attr in ('expr', 'y', 'w', 'z', 'arg', 'lhs', 'rhs', 'c', 'v'):
            e = getattr(c, attr, None)
            if e is None:
                continue
            try:
                for se in np.asarray(e, dtype=object).flat:
                    se_scan(se)
            except Exception:  # noqa: BLE001
                pass
    return acc


def compile_observe(cons, user_vars):
    """one real compile; returns (pre-state, dummy, candidates, impl-output, post-state)"""
    import sageopt.coniclifts as cl
    from sageopt.coniclifts.base import ScalarVariable
    pre = ser_state(cons)
    epis = clm.epi_vars(pre)
    # candidates: the Variables the constraints mention (the implementation collects its Variables from the constraints; a Variable
    # that occurs nowhere takes no part in the generation check)
    mentioned = mentioned_scalars(cons)
    cand = [clm.var_info(v) for v in user_vars
            if mentioned & {(int(i), int(v.generation)) for i in np.asarray(v.scalar_variable_ids).ravel()}] + epis
    # the generation of an epigraph Variable is that of the moment its atom was created (it may differ from the generation of
    # every user Variable the list mentions: an atom over constants only, created before clear_variable_indices)
    epi_gen = {}
    from sageopt.coniclifts.base import ScalarVariable as _SV, ScalarExpression as _SE
    for c in cons:
        for attr in ('expr', 'lhs', 'rhs'):
            e = getattr(c, attr, None)
            if e is None:
                continue
            try:
                for se in np.asarray(e, dtype=object).flat:
                    if isinstance(se, _SE):
                        for a in se.atoms_to_coeffs:
                            if not isinstance(a, _SV):
                                ev = a.epigraph_variable
                                epi_gen[int(ev.id)] = int(ev._generation)
            except Exception:  # noqa: BLE001
                pass
    gens = [v['gen'] for v in cand if v['gen'] is not None]
    for v in cand:
        if v['gen'] is None:
            v['gen'] = epi_gen.get(int(v['ids'][0]), gens[0] if gens else 0)
    dummy = int(ScalarVariable.curr_variable_count()) - 1
    try:
        A, b, K, vmap, variables, svid2col = cl.compile_constrained_system(cons)
        out = clm.canon_system(A, b, K, svid2col, vmap)
    except Exception as e:  # noqa: BLE001
        out = {'raises': type(e).__name__, 'msg': str(e)[:160]}
    post = ser_state(cons)
    return pre, dummy, cand, out, post


def signature(out):
    if 'raises' in out:
        return {'raises': True}
    A = np.asarray(out['A'], dtype=float).reshape(len(out['b']), len(out['cols']))
    nz_cols = int(np.sum(np.any(A != 0, axis=0))) if A.size else 0
    return {'K': sorted(Counter((t, l) for t, l in out['K']).items()), 'rows': len(out['b']), 'nonzero_cols': nz_cols}


def solve_observe(cons, obj_ids, sense, scalars_by_id):
    import sageopt.coniclifts as cl
    try:
        obj = None
        for i, (vid, cf) in enumerate(obj_ids):
            t = cf * scalars_by_id[vid]
            obj = t if obj is None else obj + t
        prob = cl.Problem(sense, obj, cons)
        if has_constant_equality_row(prob):
            return {'status': 'degenerate equality row', 'value': float('nan')}
        st, val = prob.solve(solver='ECOS', verbose=False)
        return {'status': st, 'value': float(val), 'K': sorted(Counter((co.type, int(co.len)) for co in prob.K).items()),
                'rows': int(prob.A.shape[0])}
    except Exception as e:  # noqa: BLE001
        return {'raises': type(e).__name__, 'msg': str(e)[:160]}


def has_constant_equality_row(prob):
    A = prob.A.tocsr()
    i = 0
    for co in prob.K:
        if co.type == '0':
            for r in range(i, i + co.len):
                if A.indptr[r + 1] == A.indptr[r]:
                    return True
        i += co.len
    return False


def same_value(a, b, tol=1e-5):
    if 'raises' in a or 'raises' in b:
        return ('raises' in a) == ('raises' in b)
    if a['status'] != 'solved' or b['status'] != 'solved':
        return None
    va, vb = a['value'], b['value']
    if np.isinf(va) or np.isinf(vb):
        return va == vb
    return abs(va - vb) <= tol * max(1.0, abs(va), abs(vb))


class World:
    def __init__(self, subseed):
        self.subseed = subseed
        b = c07.Build(random.Random(subseed), 0, allow_nonconvex=False, only_ecos=True).build()
        self.cons, self.vars = b.cons, b.vars
        self.user_ids = [i for v in b.vars for i in v.scalar_variable_ids]

    def scalars_by_pos(self):
        """scalar expressions by position (stable across rebuilds; ids are not)"""
        out = []
        for v in self.vars:
            for tup in np.ndindex(*v.shape):
                out.append(v[tup] if v.shape != () else v[()])
        return out


def run_history(ctx, hseed, maxops):
    import sageopt.coniclifts as cl
    rng = random.Random(hseed)
    subseed = rng.randrange(1 << 30)
    w = World(subseed)
    nops = rng.randint(2, maxops)
    steps = []          # compile steps for the model
    problems = []       # findings of the oracle
    trace = []
    compiled_once = False
    for k in range(nops):
        r = rng.random()
        if r < 0.45:
            idxs = list(range(len(w.cons)))
            if rng.random() < 0.4 and len(idxs) > 1:
                idxs = sorted(rng.sample(idxs, rng.randint(1, len(idxs))))
                if rng.random() < 0.3:
                    rng.shuffle(idxs)
            sub = [w.cons[i] for i in idxs]
            pre, dummy, cand, out, post = compile_observe(sub, w.vars)
            steps.append({'pre': pre, 'dummy': dummy, 'vars': cand, 'out': out, 'post': post, 'k': k})
            trace.append(['compile', idxs])
            # oracle: a fresh copy of the same sub-model
            f = World(subseed)
            fsub = [f.cons[i] for i in idxs]
            _, _, _, fout, _ = compile_observe(fsub, f.vars)
            if signature(out) != signature(fout):
                problems.append(('compile #%d of constraints %s after %s gives %s, a freshly built copy gives %s'
                                 % (k, idxs, [t[0] for t in trace[:-1]], signature(out), signature(fout)),
                                 {'subseed': subseed, 'hseed': hseed, 'maxops': maxops, 'trace': trace[:]}))
            compiled_once = True
        elif r < 0.7:
            idxs = list(range(len(w.cons)))
            sc = w.scalars_by_pos()
            pos = rng.sample(range(len(sc)), min(len(sc), rng.randint(1, 2)))
            coefs = [float(rng.choice([1, -1, 2])) for _ in pos]
            sense = rng.choice([cl.MIN, cl.MAX])

            def do(world):
                s = world.scalars_by_pos()
                try:
                    obj = None
                    for p, cf in zip(pos, coefs):
                        t = cf * s[p]
                        obj = t if obj is None else obj + t
                    prob = cl.Problem(sense, obj, [world.cons[i] for i in idxs])
                    if has_constant_equality_row(prob):
                        # "0 == c": ECOS cannot be trusted with an all-zero equality row (set-up error or crash, not
                        # reproducibly): the structure is still compared by the compile steps, the solve is skipped
                        return {'status': 'degenerate equality row', 'value': float('nan')}
                    st, val = prob.solve(solver='ECOS', verbose=False)
                    return {'status': st, 'value': float(val),
                            'K': sorted(Counter((co.type, int(co.len)) for co in prob.K).items()), 'rows': int(prob.A.shape[0])}
                except Exception as e:  # noqa: BLE001
                    if 'ECOS' in str(e):
                        # the solver itself gave up while setting up (not reproducible run to run): no verdict
                        return {'status': 'solver trouble', 'value': float('nan')}
                    return {'raises': type(e).__name__, 'msg': str(e)[:160]}
            got = do(w)
            want = do(World(subseed))
            trace.append(['problem+solve', pos, coefs, sense])
            ok = same_value(got, want)
            if ok is None:
                ctx.incon('solver status not "solved" in history or fresh copy')
            elif not ok or ('K' in got and 'K' in want and (got['K'], got['rows']) != (want['K'], want['rows'])):
                problems.append(('Problem built at step #%d after %s: %s, a freshly built copy: %s'
                                 % (k, [t[0] for t in trace[:-1]], got, want),
                                 {'subseed': subseed, 'hseed': hseed, 'maxops': maxops, 'trace': trace[:]}))
        elif r < 0.82:
            cl.Variable(shape=(rng.randint(1, 3),), name='unrelated_%d_%d' % (hseed, k))
            trace.append(['unrelated'])
        elif r < 0.94:
            # pickle round trip of a Problem holding every constraint (this is how models are pickled: the Problem keeps the
            # epigraph Variables alive); continue the history with the unpickled constraint and Variable objects
            sc = w.scalars_by_pos()
            try:
                prob = cl.Problem(cl.MIN, sc[0], list(w.cons))
            except Exception:  # noqa: BLE001  (objective variable in no constraint, ...)
                trace.append(['pickle-skipped'])
                continue
            prob2 = pickle.loads(pickle.dumps(prob))
            byname = {v.name: v for v in prob2.all_variables}
            if all(v.name in byname for v in w.vars):
                w.cons = list(prob2.constraints)
                w.vars = [byname[v.name] for v in w.vars]
                trace.append(['problem+pickle'])
            else:
                trace.append(['pickle-skipped'])
        else:
            # index clearing, then a model that mixes generations must be rejected
            cl.clear_variable_indices()
            # (half of the time the new Variable carries the NAME of an old one: model-building code that is run again)
            z = cl.Variable(shape=(2,), name=(rng.choice(w.vars).name if w.vars and rng.random() < 0.5 else 'newgen_%d_%d' % (hseed, k)))
            mixed = list(w.cons) + [z >= 0]
            pre, dummy, cand, out, post = compile_observe(mixed, w.vars + [z])
            steps.append({'pre': pre, 'dummy': dummy, 'vars': cand, 'out': out, 'post': post, 'k': k, 'mixed': True})
            trace.append(['clear+mixed-compile'])
            if 'raises' not in out and c07.mentions_variable(ser_state(list(w.cons))):
                # (a world whose constraints are constants only does not mix anything)
                problems.append(('a model mixing Variables of two index generations was compiled without error',
                                 {'subseed': subseed, 'hseed': hseed, 'maxops': maxops, 'trace': trace[:]}))
                break
            # the mix can also sit between the OBJECTIVE and the constraints: an objective over the old Variables, constraints over
            # the new one only
            sc = w.scalars_by_pos()
            if sc:
                try:
                    with warnings.catch_warnings():
                        warnings.simplefilter('ignore')
                        cl.Problem(cl.MIN, sc[0] + sc[-1], [z >= 0, z <= 1])
                    problems.append(('a Problem whose objective is over Variables of one index generation and whose constraints are over '
                                     'Variables of the next was compiled without error (the objective silently refers to other components)',
                                     {'subseed': subseed, 'hseed': hseed, 'maxops': maxops, 'trace': trace[:], 'mix': 'objective'}))
                except (RuntimeError, ValueError):
                    pass              # rejected (ValueError: the objective's components occur in no constraint)
                except Exception as e:  # noqa: BLE001
                    problems.append(('a Problem mixing generations between objective and constraints raised %s instead of being rejected '
                                     'with the documented error' % type(e).__name__,
                                     {'subseed': subseed, 'hseed': hseed, 'maxops': maxops, 'trace': trace[:], 'mix': 'objective'}))
            break
    return steps, problems, trace


def _sage_history(seed):
    """one SAGE model built and solved repeatedly from the SAME constraint objects vs a fresh copy each time; then the same
    Variables in a nonlinear constraint created after clear_variable_indices (the generation mix comes from the epigraph Variables)"""
    import sageopt.coniclifts as cl
    from sageopt.coniclifts.cones import Cone
    rng = random.Random(seed)
    problems = []
    m = rng.randint(3, 4)
    alpha = np.array([[float(k)] for k in range(m)])
    coef = [float(rng.choice([1, 2, 3])) for _ in range(m)]
    neg = rng.randrange(1, m - 1)
    coef[neg] = -float(rng.choice([1, 2]))
    primal = rng.random() < 0.6
    tail = rng.random() < 0.5

    def make(tag):
        g = cl.Variable(name='c11g_%d_%s' % (seed, tag))
        if primal:
            cvec = cl.Expression([coef[0] - g] + coef[1:])
            cons = [g <= 5, cl.PrimalSageCone(cvec, alpha, None, 'c11sage_%d_%s' % (seed, tag))]
            obj, sense = g, cl.MAX
        else:
            v = cl.Variable(shape=(m,), name='c11v_%d_%s' % (seed, tag))
            cons = [cl.DualSageCone(v, alpha, None, 'c11dual_%d_%s' % (seed, tag), c=np.array(coef)), v[0] == 1, g == np.array(coef) @ v]
            obj, sense = g, cl.MIN
        if tail:
            w = cl.Variable(shape=(6,), name='c11w_%d_%s' % (seed, tag))
            cons.append(cl.PrimalProductCone(w + 1.0, [Cone('+', 6)]))
        return cons, obj, sense, g

    def observe(cons, obj, sense):
        try:
            prob = cl.Problem(sense, obj, cons)
            st_, val = prob.solve(solver='ECOS', verbose=False)
            return {'status': st_, 'value': float(val), 'shape': list(prob.A.shape), 'nnz': int(prob.A.nnz),
                    'K': sorted(Counter((co.type, int(co.len)) for co in prob.K).items())}
        except Exception as e:  # noqa: BLE001
            return {'raises': type(e).__name__, 'msg': str(e)[:120]}
    cons, obj, sense, g = make('hist')
    for k in range(3):
        got = observe(cons, obj, sense)
        fcons, fobj, fsense, _ = make('fresh%d' % k)
        want = observe(fcons, fobj, fsense)
        same = same_value(got, want)
        if same is None:
            continue
        if not same or ('K' in got and 'K' in want and (got['K'], got['shape']) != (want['K'], want['shape'])):
            problems.append(('%s SAGE model built and solved for the %s time from the same constraint objects: %s, a freshly built copy: %s'
                             % ('primal' if primal else 'dual', ['first', 'second', 'third'][k], got, want), {'sage_seed': seed}))
            break
    # generation mix through epigraph Variables only
    x = cl.Variable(shape=(2,), name='c11gx_%d' % seed)
    t = cl.Variable(name='c11gt_%d' % seed)
    cl.clear_variable_indices()
    mixed = [cl.vector2norm(x) <= t, x[0] + x[1] == 2]
    for k in range(2):
        try:
            cl.compile_constrained_system(mixed)
            problems.append(('a nonlinear constraint created after clear_variable_indices over Variables created before it (its epigraph '
                             'Variable belongs to the new generation) was compiled without error on compile #%d' % (k + 1), {'sage_seed': seed}))
            break
        except RuntimeError:
            pass
        except Exception as e:  # noqa: BLE001
            problems.append(('mixed-generation compile raised %s instead of the documented RuntimeError' % type(e).__name__, {'sage_seed': seed}))
            break
    return problems


def _interleave_history(seed):
    """several SAGE models over the SAME exponents and sign pattern that differ in the domain X and in their settings, constructed
    and solved one after the other in one process; the reference for each is the same model built ALONE, in a child forked before
    any of them exists (a fresh copy built afterwards in the same process would share whatever state the others left behind)"""
    import sageopt.coniclifts as cl
    from sageopt.symbolic.signomials import SigDomain
    rng = random.Random(seed)
    n = rng.choice([1, 1, 2])
    rows = {tuple(float(rng.randint(0, 2)) for _ in range(n)) for _ in range(rng.randint(2, 4))}
    rows.add(tuple([0.0] * n))
    alpha = np.array(sorted(rows))
    m = alpha.shape[0]
    if m < 2:
        return []
    coef = [float(rng.choice([1, 2, 3])) for _ in range(m)]
    varpos = rng.randrange(1, m)             # the coefficient that carries the variable: c[varpos] = -g (sign unknown)
    kinds = ['plain', 'halfline', 'box', 'plain-noreduce', 'halfline-presolve']
    order = rng.sample(kinds, rng.randint(2, 3))

    def make(kind, tag):
        g = cl.Variable(name='c11ig_%d_%s' % (seed, tag))
        cvec = cl.Expression([(-1.0 * g) if i == varpos else coef[i] for i in range(m)])
        X, settings = None, {}
        if kind.startswith('halfline'):
            x = cl.Variable(shape=(n,), name='x')
            X = SigDomain(n, coniclifts_cons=[x <= float(np.log(2.0))])
        elif kind == 'box':
            x = cl.Variable(shape=(n,), name='x')
            X = SigDomain(n, coniclifts_cons=[x <= 1, x >= -1])
        if kind.endswith('noreduce'):
            settings = {'heuristic_reduction': False}
        if kind.endswith('presolve'):
            settings = {'presolve_trivial_age_cones': True}
        con = cl.PrimalSageCone(cvec, alpha, X, 'c11isage_%d_%s' % (seed, tag), settings=settings)
        return [g <= 5, g >= -5, con], g

    def observe(kind, tag):
        try:
            cons, g = make(kind, tag)
            prob = cl.Problem(cl.MAX, g, cons)
            st_, val = prob.solve(solver='ECOS', verbose=False)
            return {'status': st_, 'value': float(val), 'shape': list(prob.A.shape),
                    'K': sorted(Counter((co.type, int(co.len)) for co in prob.K).items())}
        except Exception as e:  # noqa: BLE001
            return {'raises': type(e).__name__, 'msg': str(e)[:120]}
    refs = {}
    for kind in order:
        k_, res = common.forked(observe, kind, 'ref', timeout=120)
        if k_ != 'ok':
            return []
        refs[kind] = res
    problems = []
    for pos, kind in enumerate(order):
        got, want = observe(kind, 'hist%d' % pos), refs[kind]
        same = same_value(got, want)
        structure = ('K' in got and 'K' in want and (got['K'], got['shape']) != (want['K'], want['shape']))
        if same is None and not structure:
            continue
        if same is False or structure:
            problems.append(('SAGE model (%s) constructed after the models %s over the same exponents: %s; the same model built alone in a '
                             'fresh process: %s' % (kind, order[:pos], got, want), {'interleave_seed': seed}))
            break
    return problems


def sage_stream(ctx, rng, count):
    out = []
    for _ in range(count):
        seed = rng.randrange(1 << 30)
        kind, res = common.forked(_interleave_history, seed, timeout=300)
        ctx.case({'stream': 'sage-interleave', 'seed': seed})
        ctx.count('stream:sage-interleave')
        if kind == 'exception':
            raise RuntimeError('interleave history raised in the child: %s' % res)
        if kind != 'ok':
            ctx.incon('interleave history: solver %s' % kind)
        else:
            out += res
        seed = rng.randrange(1 << 30)
        kind, res = common.forked(_sage_history, seed, timeout=300)
        ctx.case({'stream': 'sage-history', 'seed': seed})
        ctx.count('stream:sage-history')
        if kind == 'exception':
            raise RuntimeError('sage history raised in the child: %s' % res)
        if kind != 'ok':
            ctx.incon('sage history: solver %s' % kind)
            continue
        out += res
    return out


def settings_stream(ctx, rng, count, given=None):
    """construct a SAGE constraint, flip a global default, compile: the compiled system must be that of a constraint
    constructed AND compiled under the original defaults (implementation-level; the row-level model is C01/C02)"""
    import sageopt.coniclifts as cl
    import sageopt.coniclifts.constraints.set_membership.sage_cones as sc
    setters = {'sum_age_force_equality': cl.sum_age_force_equality, 'compact_dual': cl.compact_sage_duals,
               'kernel_basis': cl.kernel_basis_age_witnesses, 'heuristic_reduction': cl.heuristic_reduce_cond_age_cones,
               'presolve_trivial_age_cones': cl.presolve_trivial_age_cones}
    saved = dict(sc.SETTINGS)
    problems = []
    try:
        for t in range(count if given is None else len(given)):
            if given is None:
                m, n = rng.randint(3, 5), rng.randint(1, 2)
                alpha = np.array([[float(rng.randint(0, 3)) for _ in range(n)] for _ in range(m)])
                alpha = np.unique(alpha, axis=0)
                if alpha.shape[0] < 3:
                    continue
                key = rng.choice(['sum_age_force_equality', 'compact_dual'])
            else:
                alpha, key = np.array(given[t][0], dtype=float), given[t][1]
            m = alpha.shape[0]
            primal = key == 'sum_age_force_equality'

            def make(tag):
                v = cl.Variable(shape=(m,), name='cS_%d_%s' % (t, tag))
                return (cl.PrimalSageCone(v, alpha, None, 'ps_%d_%s' % (t, tag)) if primal
                        else cl.DualSageCone(v, alpha, None, 'ds_%d_%s' % (t, tag))), v
            for k2, v2 in saved.items():
                sc.SETTINGS[k2] = v2
            con, v = make('hist')
            setters[key](not saved[key])                  # flip the default AFTER construction
            try:
                out_hist = cl.compile_constrained_system([con])
            except Exception as e:  # noqa: BLE001
                ctx.case({'stream': 'settings', 'alpha': alpha.tolist(), 'flipped': key})
                ctx.count('stream:settings')
                problems.append(('flipping the global default %s after constructing a %s constraint makes compiling it raise %s: %s'
                                 % (key, 'primal' if primal else 'dual', type(e).__name__, str(e)[:80]),
                                 {'alpha': alpha.tolist(), 'flipped': key}))
                continue
            finally:
                for k2, v2 in saved.items():
                    sc.SETTINGS[k2] = v2
            con2, v2_ = make('fresh')
            out_fresh = cl.compile_constrained_system([con2])
            sig = lambda o: (sorted(Counter((co.type, int(co.len)) for co in o[2]).items()), o[0].shape)  # noqa: E731
            ctx.case({'stream': 'settings', 'alpha': alpha.tolist(), 'flipped': key})
            ctx.count('stream:settings')
            if sig(out_hist) != sig(out_fresh):
                problems.append(('flipping the global default %s after constructing a %s constraint changed its compiled system: %s vs %s'
                                 % (key, 'primal' if primal else 'dual', sig(out_hist), sig(out_fresh)),
                                 {'alpha': alpha.tolist(), 'flipped': key}))
    finally:
        for k2, v2 in saved.items():
            sc.SETTINGS[k2] = v2
    return problems


def equal_atoms_stream(ctx, rng, count, given=None):
    """constraints with SEPARATELY BUILT, equal nonlinear atoms (the same atom over the same argument in two constraints), one of them compiled
    alone first, then both in one model in either order: value and size of the model must be those of a freshly built copy"""
    import sageopt.coniclifts as cl
    from sageopt.coniclifts.operators.abs import abs as cl_abs
    out = []

    def model(kind, t, b1, b2):
        x = cl.Variable(shape=(2,), name='eqat_%d_%d' % (getattr(ctx, 'seed', 0), t))
        if kind == 'exp':
            mk = lambda: cl.weighted_sum_exp(np.array([1.0, 1.0]), x)     # noqa: E731
        elif kind == 'norm':
            mk = lambda: cl.vector2norm(x)                                # noqa: E731
        else:
            mk = lambda: cl.sum(cl_abs(x))                                # noqa: E731
        return x, [mk() <= b1, mk() <= b2]

    for t in range(count if given is None else len(given)):
        if given is not None:
            g = given[t]
            kind, (b1, b2), first, order, how, cvec = g['kind'], g['bounds'], g['first'], g['order'], g['how'], np.array(g['c'], dtype=float)
        else:
            kind = rng.choice(['exp', 'norm', 'abs'])
            b1, b2 = sorted(rng.sample([1.0, 2.0, 3.0, 5.0, 8.0], 2))
            first = rng.choice([0, 1])                 # which constraint is compiled alone beforehand
            order = rng.choice([[0, 1], [1, 0]])
            how = rng.choice(['compile', 'solve'])
            cvec = np.array([float(rng.choice([1, 2])), float(rng.choice([1, 3]))])

        def run_(pre):
            x, cons = model(kind, t, b1, b2)
            if pre:
                if how == 'compile':
                    cl.compile_constrained_system([cons[first]])
                else:
                    cl.Problem(cl.MAX, cvec @ x, [cons[first]]).solve(verbose=False)
            prob = cl.Problem(cl.MAX, cvec @ x, [cons[i] for i in order])
            st_, val = prob.solve(verbose=False)
            return st_, float(val), tuple(prob.A.shape)
        rep = {'stream': 'equal-atoms', 'kind': kind, 'bounds': [b1, b2], 'first': first, 'order': order, 'how': how, 'c': cvec.tolist()}
        ctx.case(rep, nontrivial=True)
        ctx.count('stream:equal-atoms')
        try:
            got, want = run_(True), run_(False)
        except Exception as e:  # noqa: BLE001
            out.append(('two constraints with equal atoms (%s <= %g, <= %g): %s raised after one of them had been compiled alone'
                        % (kind, b1, b2, type(e).__name__), rep))
            continue
        if got[0] != 'solved' or want[0] != 'solved':
            ctx.incon('equal-atoms: status %s / %s' % (got[0], want[0]))
            continue
        if abs(got[1] - want[1]) > 1e-5 * max(1.0, abs(want[1])) or got[2] != want[2]:
            out.append(('after constraint #%d (%s(x) <= %g) was %s alone, the model of both constraints (order %s) has value %.8g and a %s system; a '
                        'freshly built copy has value %.8g and a %s system' % (first, kind, [b1, b2][first], 'compiled' if how == 'compile' else 'solved',
                                                                                 order, got[1], got[2], want[1], want[2]), rep))
    return out


def run(ctx):
    rng = ctx.rng
    ctx.lean = common.lean_check('C11')
    common.run_regressions(ctx, 'C11', lambda r: recheck(r))
    quick = ctx.quick()
    H = 150 if quick else 1500
    maxops = 8 if quick else 20
    all_steps, all_problems = [], []
    pinned = [(e['hseed'], e['maxops']) for e in common.load_corpus('C11') if 'hseed' in e]
    for h in range(H):
        hseed, mo_ = pinned[h] if h < len(pinned) else (rng.randrange(1 << 30), maxops)
        log = common.CtxLog(getattr(ctx, 'seed', 0))
        kind, res = common.forked(lambda: (run_history(log, hseed, mo_), log.log), timeout=300)
        if kind == 'exception':
            raise RuntimeError('history raised in the child: %s' % res)
        if kind != 'ok':
            ctx.incon('history: solver %s' % kind)       # the real solve runs ECOS in-process; a crash costs this history only
            continue
        (steps, problems, trace), entries = res
        log.log = entries
        log.replay_into(ctx)
        for s in steps:
            s['hseed'] = hseed
        all_steps += steps
        all_problems += problems
        ctx.case({'stream': 'history', 'hseed': hseed, 'ops': [t[0] for t in trace]}, nontrivial=len(trace) >= 3)
        for t in trace:
            ctx.count('op:' + t[0])
    # the model on every compile step
    lines = [{'op': 'compile.step', 'cons': strip_state(s['pre']), 'dummy': s['dummy'],
              'vars': [{'name': v['name'], 'ids': v['ids'], 'gen': v['gen']} for v in s['vars']]} for s in all_steps]
    mouts = run_driver(lines)
    for s, mo in zip(all_steps, mouts):
        if isinstance(mo, dict) and 'error' in mo:
            raise common.DriverError(mo['error'])
        io = s['out']
        ctx.count('stream:compile-step')
        if 'raises' in io or 'raises' in mo:
            if 'raises' in io and 'raises' not in mo and not c07.mentions_variable(s['pre']):
                ctx.count('skipped:no-variable-anywhere')      # constants only: cannot be compiled (see C07)
                continue
            if ('raises' in io) != ('raises' in mo):
                ctx.disagreement('compile-step', {'hseed': s['hseed'], 'k': s['k'], 'pre': s['pre']}, io, mo)
            else:
                ctx.traces_validated += 1
            continue
        a = clm.canon_impl(io, mo.get('eRows', []))
        m = clm.canon_model(mo)
        if not (set(a['vmap']) - set(m['vmap'])):
            m['vmap'] = {k: v for k, v in m['vmap'].items() if k in a['vmap']}
        ok = common.canon_json(a) == common.canon_json(m)
        okpost = common.canon_json(canon_post(s['post'])) == common.canon_json(mo['post'])
        if not ok:
            ctx.disagreement('compile-step', {'hseed': s['hseed'], 'k': s['k'], 'pre': s['pre']}, a, m)
        elif not okpost:
            ctx.disagreement('post-state', {'hseed': s['hseed'], 'k': s['k'], 'pre': s['pre']}, canon_post(s['post']), mo['post'])
        else:
            ctx.traces_validated += 1
    all_problems += settings_stream(ctx, rng, 30 if quick else 300)
    all_problems += sage_stream(ctx, rng, 12 if quick else 100)
    all_problems += equal_atoms_stream(ctx, rng, 12 if quick else 100)
    for what, rep in all_problems:
        tags = []
        ctx.violation('history: ' + what, rep, tags=tags)
    if (not ctx.lean.ok or ctx.disagreements) and not ctx.violations:
        common.broken_report(ctx, 'comparison of every compile/solve with a freshly built copy found no failing history among %d' % H)
    return ctx.finish(
        level='proof',
        rule='random histories (<= %d operations) over shared constraint/Variable objects: compile (sub)lists in any order, '
             'Problem+solve, unrelated Variables, pickle round trips of everything, clear_variable_indices + mixed-generation model, '
             'SAGE default flips between construction and compilation; non-trivial = history with >= 3 operations; '
             'distinct = distinct (seed, operation list)' % maxops,
        trusted=TRUSTED, assumptions=ASSUME)


def replay(obj):
    r = obj['replay']
    print('what:', obj['what'])
    if 'sage_seed' in r:
        probs = _sage_history(r['sage_seed'])
        for what, _ in probs:
            print('  ', what)
        return 1 if probs else 0
    if 'interleave_seed' in r:
        probs = _interleave_history(r['interleave_seed'])
        for what, _ in probs:
            print('  ', what)
        return 1 if probs else 0
    if 'flipped' in r and 'alpha' in r:
        probs = settings_stream(common.RecCtx(), random.Random(0), 0, given=[(r['alpha'], r['flipped'])])
        for what, _ in probs:
            print('  ', what)
        return 1 if probs else 0
    if r.get('stream') == 'equal-atoms':
        probs = equal_atoms_stream(common.RecCtx(), random.Random(0), 0, given=[r])
        for what, _ in probs:
            print('  ', what)
        return 1 if probs else 0
    if 'hseed' in r:
        class C:
            def incon(self, *a):
                pass
        steps, problems, trace = run_history(C(), r['hseed'], r.get('maxops', 8))
        print('re-executed history (seed %d): %s' % (r['hseed'], trace))
        for what, _ in problems:
            print('  ', what)
        return 1 if problems else 0
    print('this stored input cannot be executed again (unknown kind)')
    return 2


recheck = common.recheck_via_replay(replay)
