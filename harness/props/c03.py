"""
C03 -- sig_relaxation gives a valid lower bound; primal and dual forms agree.

Model: lean/SageoptModel/Model/Relax.lean (sigPrimal / sigDual) on top of Sig.lean, Lin.lean, SymCorr.lean and the SAGE cone
model; theorems: Props/C03.lean.
Tie (structure): random f, ell, modulator supports, X -> the real sig_relaxation Problem; the exponent matrix and coefficient
vector (affine in gamma) of its SAGE constraint, the normalisation vector and the objective vector are compared exactly with the
model (rows sorted).
Audit: both forms solved with ECOS; value <= f(x) + tol at sampled points of X; primal <= dual + tol; dual never +inf on a
nonempty X; equality of the two values when both finite (observed: strong duality is not proved).
"""
import math
from fractions import Fraction as F

import numpy as np

import common
import relaxmodel as rm
import sigtree as st
from common import run_driver

TRUSTED = [
    'Lean 4.33.0 kernel; axioms of every theorem in Props/C03*.lean within {propext, Classical.choice, Quot.sound}',
    'harness/relaxmodel.py (generators, extraction of the built Problem\'s data), harness/props/c03.py',
    'ECOS in the audit stream only (statuses other than solved are inconclusive; tolerance 1e-5 relative)',
]
ASSUME = [
    'strong duality (primal value = dual value when both are finite) is a closedness / Slater fact about the cones, independent of '
    'the code: observed per instance, not proved => the property is claimed as partial',
]


def gen_twin_case(rng):
    """e^{2a x} - k e^{a x} - k e^{(a + d) x} + 1 with d = 1e-5 or 2e-5: two NEGATIVE terms whose exponents differ in the 5th decimal
    (distinct on the 7-decimal grid); the relaxation is exact on it in both forms (value -k^2 to five digits) and well conditioned,
    and the minimiser lies among the sampled points' neighbours: a dual that mixes the two coefficients up is above f there"""
    a = F(rng.choice([1, 2, 3]))
    d = F(rng.choice([1, 2]), 10 ** 5)
    k = F(rng.choice([1, 2]))
    f = rm.sig_leaf([[2 * a], [a], [a + d], [F(0)]], [F(1), -k, -k, F(1)])
    return {'f': f, 'box': None, 'ell': rng.choice([0, 0, 1]), 'mod_supp': None, 'twin': True}


def gen_loose_case(rng):
    """e^{3x} - a e^{2x} + b e^{x} + e^{-x}: the level-0 relaxation is NOT tight on these, so what the modulator is (a user support
    without the constant row, at level 1 or 2) shows in the value, the same in both forms"""
    a, b = rng.choice([(4, 7), (4, 6), (5, 9), (3, 4)])
    f = rm.sig_leaf([[F(3)], [F(2)], [F(1)], [F(-1)]], [F(1), F(-a), F(b), F(1)])
    rows = rng.choice([[[F(1)], [F(-1)]], [[F(1)]], [[F(2)], [F(1)]]])
    return {'f': f, 'box': None, 'ell': rng.choice([1, 1, 2]), 'mod_supp': [[common.frac_str(x) for x in r] for r in rows], 'twin': True}


def gen_case(rng):
    r0 = rng.random()
    if r0 < 0.06:
        return gen_loose_case(rng)
    if r0 < 0.16:
        return gen_twin_case(rng)
    f = rm.gen_sig(rng, near=True)
    n = f['n']
    box = rm.gen_box(rng, n, eq=True) if rng.random() < 0.45 else None
    ell = rng.choice([0, 0, 1, 1, 2])
    mod = None
    if ell > 0 and rng.random() < 0.4:
        rows = rng.choice([[[F(0)] * n, [F(1)] + [F(0)] * (n - 1)],
                           [[F(1)] + [F(0)] * (n - 1), [F(-1)] + [F(0)] * (n - 1)],       # no constant row
                           [[F(1)] + [F(0)] * (n - 1)]])
        mod = [[common.frac_str(x) for x in r] for r in rows]
        if rng.random() < 0.6:
            # (a well-conditioned objective under the custom support: primal against dual is then a meaningful comparison)
            f = rm.gen_sig(rng, n=n, near=False)
    return {'f': f, 'box': box, 'ell': ell, 'mod_supp': mod, 'noncompact': box is not None and rng.random() < 0.6}


def build(case, form):
    import sageopt as so
    f = st.build(case['f'])
    X = rm.build_sig_domain(case['f']['n'], case['box'])
    kw = {'ell': case['ell']}
    if case['mod_supp'] is not None:
        kw['mod_supp'] = np.array([[float(F(x)) for x in r] for r in case['mod_supp']])
    return so.sig_relaxation(f, X=X, form=form, **kw)


def audit_case(ctx, rng, c, pinned=None):
    n = c['f']['n']
    vals = {}
    for form in ('primal', 'dual'):
        try:
            prob = build(c, form)
        except Exception:  # noqa: BLE001
            continue
        vals[form] = rm.solve_ecos(prob)
    if c['box'] is not None and c.get('noncompact'):
        # the dual form once more under the non-default epigraph (non-compact) dual rows: same bound, same guarantees
        import sageopt.coniclifts as cl
        cl.compact_sage_duals(False)
        try:
            vals['dual (compact_dual=False)'] = rm.solve_ecos(build(c, 'dual'))
            ctx.count('audit:dual-noncompact')
        except Exception:  # noqa: BLE001
            pass
        finally:
            cl.compact_sage_duals(True)
    ctx.case({'stream': 'audit', 'case': c})
    ctx.count('stream:audit')
    pts = rm.box_points(rng, n, c['box'], 30) + ([list(pinned)] if pinned else [])
    if c.get('twin') and n == 1:
        pts += [[t / 16.0] for t in range(-16, 17)]
    fmin = min(rm.sig_eval_leaf(c['f'], x) for x in pts)
    for form, (s, v) in vals.items():
        if s != 'solved':
            ctx.incon('audit: %s status %s' % (form, s))
            continue
        if math.isfinite(v) and v > fmin + 1e-5 * max(1.0, abs(fmin)):
            x = min(pts, key=lambda z: rm.sig_eval_leaf(c['f'], z))
            ctx.violation('bound: the %s relaxation value %.8g exceeds f(x) = %.8g at the point x = %s of X' % (form, v, fmin, x),
                          {'stream': 'audit', 'form': form, 'case': c, 'value': v, 'point': x})
        if form.startswith('dual') and v == math.inf:
            ctx.violation('bound: the dual relaxation over a nonempty X is reported infeasible (+inf)',
                          {'stream': 'audit', 'form': form, 'case': c})
        if form == 'primal' and v == math.inf:
            ctx.violation('bound: the primal relaxation (a maximisation) is reported +inf although f is finite on X',
                          {'stream': 'audit', 'form': form, 'case': c})
    for dkey in ('dual', 'dual (compact_dual=False)'):
        if not all(k in vals and vals[k][0] == 'solved' for k in ('primal', dkey)):
            continue
        vp, vd = vals['primal'][1], vals[dkey][1]
        rows_ = [[F(x) for x in r] for r in c['f']['alpha']]
        near = any(max(abs(a - b) for a, b in zip(r1, r2)) < F(1, 1000) for i, r1 in enumerate(rows_) for r2 in rows_[i + 1:])
        if vp > vd + 1e-5 * max(1.0, abs(vd)) and not (math.isinf(vp) and math.isinf(vd)) and near:
            # two exponents of f closer than 1e-3 (the family planted against tolerance-based matching): the dual is then so badly
            # conditioned that a "solved" point with constraint violations of 1e-7 can sit far below the optimum (observed: 2.0096 for a
            # problem whose primal AND merged-exponent dual give 2.8311); weak duality is a theorem about the model, which the data of
            # both forms are compared with exactly; the VALUES are only judged against f (above), which is robust
            ctx.incon('audit: primal above dual on an instance with near-duplicate exponents (left to the conditioning of the dual)')
        elif vp > vd + 1e-5 * max(1.0, abs(vd)) and not (math.isinf(vp) and math.isinf(vd)):
            ctx.violation('weak duality: primal value %.8g exceeds %s value %.8g' % (vp, dkey, vd), {'stream': 'audit', 'case': c})
        elif math.isfinite(vp) and math.isfinite(vd):
            if abs(vp - vd) > 1e-4 * max(1.0, abs(vd)):
                ctx.incon('audit: finite primal and dual values differ by more than 1e-4 (strong duality is only observed)')
            else:
                ctx.count('audit:primal=dual')


def run(ctx):
    rng = ctx.rng
    ctx.lean = common.lean_check('C03')
    quick = ctx.quick()
    common.run_regressions(ctx, 'C03', recheck)
    N = 60 if quick else 400
    cases = [gen_case(rng) for _ in range(N)]
    lines, impl = [], []
    for c in cases:
        for form in ('primal', 'dual'):
            try:
                prob = build(c, form)
                io = rm.extract_primal(prob) if form == 'primal' else rm.extract_dual(prob)
            except Exception as e:  # noqa: BLE001
                io = {'raises': type(e).__name__, 'msg': str(e)[:120]}
            line = {'op': 'relax.sig_' + form, 'f': st.strip_types(c['f']), 'ell': c['ell'], 'gamma': 0}
            if c['mod_supp'] is not None:
                line['mod_supp'] = c['mod_supp']
            lines.append(line)
            impl.append((c, form, io))
    mouts = run_driver(lines)
    for (c, form, io), mo in zip(impl, mouts):
        if isinstance(mo, dict) and 'error' in mo:
            raise common.DriverError(mo['error'])
        ctx.case({'stream': 'structure', 'form': form, 'case': c}, nontrivial=len(c['f']['c']) >= 2)
        ctx.count('stream:structure:' + form)
        ctx.count('ell:%d' % c['ell'])
        ctx.count('X:' + ('box' if c['box'] else 'none'))
        if 'raises' in io or 'raises' in mo:
            if ('raises' in io) != ('raises' in mo):
                ctx.disagreement('structure', {'form': form, 'case': c}, io, mo)
            else:
                ctx.traces_validated += 1
            continue
        m = rm.canon_model_primal(mo) if form == 'primal' else rm.canon_model_dual(mo)
        if common.canon_json(io) != common.canon_json(m):
            ctx.disagreement('structure', {'form': form, 'case': c}, io, m)
        else:
            ctx.traces_validated += 1
    # ---- audit
    naud = 40 if quick else 300
    for c in cases[:naud] + [c for c in cases[naud:] if c.get('twin')][:(5 if quick else 30)]:
        audit_case(ctx, rng, c)
    if (not ctx.lean.ok or ctx.disagreements) and not ctx.violations:
        common.broken_report(ctx, 'bound audit (sampled points of X, primal vs dual) found no failing input among %d audited instances' % naud)
    return ctx.finish(
        level='proof',
        rule='random signomials (n <= 2, m <= 5, half-integer exponents, all coefficient signs, with / without constant term), '
             'X in {none, box SigDomain}, ell in {0,1,2}, default and custom modulator supports, both forms; audit on sampled points; '
             'non-trivial = at least two terms; distinct = distinct JSON',
        trusted=TRUSTED, assumptions=ASSUME)


def recheck(r):
    """execute the stored input of a violation again; the violation it (still) shows, or None"""
    import random
    ctx = common.RecCtx()
    if r.get('stream') == 'audit':
        audit_case(ctx, random.Random(0), r['case'], pinned=r.get('point'))
    return ctx.first()


def replay(obj):
    print('what:', obj['what'])
    print(common.canon_json(obj['replay'])[:1500])
    return 1
