"""
C03 -- sig_relaxation gives a valid lower bound; primal and dual forms agree.

Model: lean/SageoptModel/Model/Relax.lean (sigPrimal / sigDual) on top of Sig.lean, Lin.lean, SymCorr.lean and the SAGE cone
model; theorems: Props/C03.lean.
Tie (structure): random f, ell, modulator supports, X -> the real sig_relaxation Problem; the exponent matrix and coefficient
vector (affine in gamma) of its SAGE constraint, the normalisation vector and the objective vector are compared exactly with the
model (rows sorted).
Audit: both forms solved with ECOS; value <= f(x) + tol at sampled points of X; primal <= dual + tol; dual never +inf on a
nonempty X; equality of the two values when both finite (observed: strong duality is not proved).
"""
import math
from fractions import Fraction as F

import numpy as np

import common
import relaxmodel as rm
import sigtree as st
from common import run_driver

TRUSTED = [
    'Lean 4.33.0 kernel; axioms of every theorem in Props/C03*.lean within {propext, Classical.choice, Quot.sound}',
    'harness/relaxmodel.py (generators, extraction of the built Problem\'s data), harness/props/c03.py',
    'ECOS in the audit stream only (statuses other than solved are inconclusive; tolerance 1e-5 relative)',
]
ASSUME = [
    'strong duality (primal value = dual value when both are finite) is a closedness / Slater fact about the cones, independent of '
    'the code: observed per instance, not proved => the property is claimed as partial',
]


def gen_case(rng):
    f = rm.gen_sig(rng, near=True)
    n = f['n']
    box = rm.gen_box(rng, n, eq=True) if rng.random() < 0.45 else None
    ell = rng.choice([0, 0, 1, 1, 2])
    mod = None
    if ell > 0 and rng.random() < 0.4:
        rows = rng.choice([[[F(0)] * n, [F(1)] + [F(0)] * (n - 1)],
                           [[F(1)] + [F(0)] * (n - 1), [F(-1)] + [F(0)] * (n - 1)],       # no constant row
                           [[F(1)] + [F(0)] * (n - 1)]])
        mod = [[common.frac_str(x) for x in r] for r in rows]
    return {'f': f, 'box': box, 'ell': ell, 'mod_supp': mod}


def build(case, form):
    import sageopt as so
    f = st.build(case['f'])
    X = rm.build_sig_domain(case['f']['n'], case['box'])
    kw = {'ell': case['ell']}
    if case['mod_supp'] is not None:
        kw['mod_supp'] = np.array([[float(F(x)) for x in r] for r in case['mod_supp']])
    return so.sig_relaxation(f, X=X, form=form, **kw)


def audit_case(ctx, rng, c, pinned=None):
    n = c['f']['n']
    vals = {}
    for form in ('primal', 'dual'):
        try:
            prob = build(c, form)
        except Exception:  # noqa: BLE001
            continue
        vals[form] = rm.solve_ecos(prob)
    ctx.case({'stream': 'audit', 'case': c})
    ctx.count('stream:audit')
    pts = rm.box_points(rng, n, c['box'], 30) + ([list(pinned)] if pinned else [])
    fmin = min(rm.sig_eval_leaf(c['f'], x) for x in pts)
    for form, (s, v) in vals.items():
        if s != 'solved':
            ctx.incon('audit: %s status %s' % (form, s))
            continue
        if math.isfinite(v) and v > fmin + 1e-5 * max(1.0, abs(fmin)):
            x = min(pts, key=lambda z: rm.sig_eval_leaf(c['f'], z))
            ctx.violation('bound: the %s relaxation value %.8g exceeds f(x) = %.8g at the point x = %s of X' % (form, v, fmin, x),
                          {'stream': 'audit', 'form': form, 'case': c, 'value': v, 'point': x})
        if form == 'dual' and v == math.inf:
            ctx.violation('bound: the dual relaxation over a nonempty X is reported infeasible (+inf)',
                          {'stream': 'audit', 'form': form, 'case': c})
        if form == 'primal' and v == math.inf:
            ctx.violation('bound: the primal relaxation (a maximisation) is reported +inf although f is finite on X',
                          {'stream': 'audit', 'form': form, 'case': c})
    if all(k in vals and vals[k][0] == 'solved' for k in ('primal', 'dual')):
        vp, vd = vals['primal'][1], vals['dual'][1]
        if vp > vd + 1e-5 * max(1.0, abs(vd)) and not (math.isinf(vp) and math.isinf(vd)):
            ctx.violation('weak duality: primal value %.8g exceeds dual value %.8g' % (vp, vd), {'stream': 'audit', 'case': c})
        elif math.isfinite(vp) and math.isfinite(vd):
            if abs(vp - vd) > 1e-4 * max(1.0, abs(vd)):
                ctx.incon('audit: finite primal and dual values differ by more than 1e-4 (strong duality is only observed)')
            else:
                ctx.count('audit:primal=dual')


def run(ctx):
    rng = ctx.rng
    ctx.lean = common.lean_check('C03')
    quick = ctx.quick()
    common.run_regressions(ctx, 'C03', recheck)
    N = 60 if quick else 400
    cases = [gen_case(rng) for _ in range(N)]
    lines, impl = [], []
    for c in cases:
        for form in ('primal', 'dual'):
            try:
                prob = build(c, form)
                io = rm.extract_primal(prob) if form == 'primal' else rm.extract_dual(prob)
            except Exception as e:  # noqa: BLE001
                io = {'raises': type(e).__name__, 'msg': str(e)[:120]}
            line = {'op': 'relax.sig_' + form, 'f': st.strip_types(c['f']), 'ell': c['ell'], 'gamma': 0}
            if c['mod_supp'] is not None:
                line['mod_supp'] = c['mod_supp']
            lines.append(line)
            impl.append((c, form, io))
    mouts = run_driver(lines)
    for (c, form, io), mo in zip(impl, mouts):
        if isinstance(mo, dict) and 'error' in mo:
            raise common.DriverError(mo['error'])
        ctx.case({'stream': 'structure', 'form': form, 'case': c}, nontrivial=len(c['f']['c']) >= 2)
        ctx.count('stream:structure:' + form)
        ctx.count('ell:%d' % c['ell'])
        ctx.count('X:' + ('box' if c['box'] else 'none'))
        if 'raises' in io or 'raises' in mo:
            if ('raises' in io) != ('raises' in mo):
                ctx.disagreement('structure', {'form': form, 'case': c}, io, mo)
            else:
                ctx.traces_validated += 1
            continue
        m = rm.canon_model_primal(mo) if form == 'primal' else rm.canon_model_dual(mo)
        if common.canon_json(io) != common.canon_json(m):
            ctx.disagreement('structure', {'form': form, 'case': c}, io, m)
        else:
            ctx.traces_validated += 1
    # ---- audit
    naud = 40 if quick else 300
    for c in cases[:naud]:
        audit_case(ctx, rng, c)
    if (not ctx.lean.ok or ctx.disagreements) and not ctx.violations:
        common.broken_report(ctx, 'bound audit (sampled points of X, primal vs dual) found no failing input among %d audited instances' % naud)
    return ctx.finish(
        level='proof',
        rule='random signomials (n <= 2, m <= 5, half-integer exponents, all coefficient signs, with / without constant term), '
             'X in {none, box SigDomain}, ell in {0,1,2}, default and custom modulator supports, both forms; audit on sampled points; '
             'non-trivial = at least two terms; distinct = distinct JSON',
        trusted=TRUSTED, assumptions=ASSUME)


def recheck(r):
    """execute the stored input of a violation again; the violation it (still) shows, or None"""
    import random
    ctx = common.RecCtx()
    if r.get('stream') == 'audit':
        audit_case(ctx, random.Random(0), r['case'], pinned=r.get('point'))
    return ctx.first()


def replay(obj):
    print('what:', obj['what'])
    print(common.canon_json(obj['replay'])[:1500])
    return 1
