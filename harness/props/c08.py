"""
C08 -- Expressions behave exactly like numpy arrays of affine functions.

Model: lean/SageoptModel/Model/Wiring.lean (+ Lin.lean); theorems: Props/C08.lean.
Tie: the ~35 operators of operators/affine.py and the arithmetic / indexing / matmul kernel of base.py are exercised in random
straight-line programs.  For every step the WIRING of the operator (each output cell as a linear combination of input cells)
is extracted from numpy itself by running the same numpy function on arrays of free-module probe objects, validated against
numpy on float arrays, and sent to the model together with the canonical affine form of every input cell; the model's output
cells are compared exactly with the real coniclifts result (shape, every cell's affine form, variables it depends on).
Oracle: numpy on the values under random rational assignments; mathematical definitions of the nonlinear operators (also with
repeated / constant arguments); introspection = support of the value function; are_equivalent total, sound, complete on affine.
"""
import math
import random
from fractions import Fraction as F

import numpy as np

import common
from common import frac_str, run_driver

TRUSTED = [
    'Lean 4.33.0 kernel; axioms of every theorem in Props/C08*.lean within {propext, Classical.choice, Quot.sound}',
    'numpy\'s own array algorithms on object arrays: the wiring of every operator is EXTRACTED from numpy with probe objects on '
    'every run (and cross-checked against numpy on float arrays); what is verified is that coniclifts Expressions follow it',
    'harness/props/c08.py (probe algebra, program generator, canonicalisation of ScalarExpressions)',
]
ASSUME = [
    'constants and coefficients are small dyadic rationals so that float arithmetic is exact',
    'scalar-level arithmetic with numpy scalar types outside __REAL_TYPES__ (np.int8, np.float16) raises and is not claimed',
]


# ------------------------------------------------------------------------------------------------
# probe algebra: free module over input-cell indices, with constants
# ------------------------------------------------------------------------------------------------

class P:
    __slots__ = ['d', 'c']
    __array_priority__ = 1000

    def __init__(self, d=None, c=0):
        self.d = d or {}
        self.c = F(c)

    @staticmethod
    def lift(x):
        if isinstance(x, P):
            return x
        return P({}, F(float(x)))

    def is_const(self):
        return not any(v != 0 for v in self.d.values())

    def __add__(self, o):
        o = P.lift(o)
        d = dict(self.d)
        for k, v in o.d.items():
            d[k] = d.get(k, F(0)) + v
        return P(d, self.c + o.c)
    __radd__ = __add__

    def __neg__(self):
        return P({k: -v for k, v in self.d.items()}, -self.c)

    def __sub__(self, o):
        return self + (-P.lift(o))

    def __rsub__(self, o):
        return P.lift(o) + (-self)

    def __mul__(self, o):
        o = P.lift(o)
        if o.is_const():
            return P({k: v * o.c for k, v in self.d.items()}, self.c * o.c)
        if self.is_const():
            return P({k: v * self.c for k, v in o.d.items()}, self.c * o.c)
        raise ArithmeticError('product of two non-constant cells')
    __rmul__ = __mul__

    def __truediv__(self, o):
        o = P.lift(o)
        if not o.is_const():
            raise ArithmeticError('division by a non-constant cell')
        return P({k: v / o.c for k, v in self.d.items()}, self.c / o.c)


def probe_array(shape, start):
    a = np.empty(shape, dtype=object)
    k = start
    for tup in np.ndindex(*shape):
        a[tup] = P({k: F(1)})
        k += 1
    return a, k


def wire_of(out_arrays):
    """probe outputs -> {'rows': [[idx, coef]...], 'off': [...]} over all outputs concatenated, + shapes"""
    rows, off, shapes = [], [], []
    for o in out_arrays:
        o = np.asarray(o, dtype=object)
        shapes.append(list(o.shape))
        for cell in o.ravel().tolist() if o.shape != () else [o.item()]:
            cell = P.lift(cell)
            rows.append([[int(k), frac_str(v)] for k, v in sorted(cell.d.items()) if v != 0])
            off.append(frac_str(cell.c))
    return {'rows': rows, 'off': off}, shapes


# ------------------------------------------------------------------------------------------------
# canonical cells of real Expressions
# ------------------------------------------------------------------------------------------------

def cells_of(e, id2k):
    """Expression / ScalarExpression / number -> (shape, [ {'off','co'} per cell ]) over the program's base scalar variables"""
    from sageopt.coniclifts.base import ScalarExpression, ScalarVariable, Expression
    if isinstance(e, ScalarExpression):
        arr = [e]
        shape = []
    elif isinstance(e, np.ndarray):
        shape = list(e.shape)
        arr = e.ravel().tolist() if e.shape != () else [e.item()]
    else:
        shape, arr = [], [e]
    out = []
    for se in arr:
        if isinstance(se, ScalarExpression):
            acc = {}
            for a, c in se.atoms_to_coeffs.items():
                if not isinstance(a, ScalarVariable):
                    raise AssertionError('nonlinear atom in an affine program')
                k = id2k[a.id]
                acc[k] = acc.get(k, F(0)) + F(float(c))
            out.append({'off': frac_str(F(float(se.offset))), 'co': [[k, frac_str(v)] for k, v in sorted(acc.items()) if v != 0]})
        else:
            out.append({'off': frac_str(F(float(se))), 'co': []})
    return shape, out


# ------------------------------------------------------------------------------------------------
# operators: each returns (callable on real args, same callable used on probe args)
# ------------------------------------------------------------------------------------------------

def rc(rng, shape):
    """random small dyadic constant array"""
    return np.array([float(rng.choice([-2, -1, 0, 1, 2, 0.5, 3])) for _ in range(int(np.prod(shape)) if shape else 1)]).reshape(shape)


def gen_step(rng, vals):
    """vals: list of (name, real-object, shape).  Returns (opname, fn(cl, args)->result(s), input indices) or None"""
    import sageopt.coniclifts as cl
    arr = [(i, v) for i, v in enumerate(vals) if isinstance(v[1], np.ndarray) and 0 not in v[2]]
    if not arr:
        return None
    i, (nm, obj, shape) = rng.choice(arr)
    # objects that are still TYPED Variable although they are no longer plain Variables (x / 2, slices, transposes, reversals keep
    # the type): prefer them, and push them through the operators that read their coefficients (matmul, dot, ...)
    vtyped = [(j, w) for j, w in arr if isinstance(w[1], cl.Variable)]
    if vtyped and rng.random() < 0.35:
        i, (nm, obj, shape) = rng.choice(vtyped)
    nd = len(shape)
    ops = []
    if isinstance(obj, cl.Variable):
        ops += [('div_const', None, [i])] * 4 + [('reverse', lambda m, a: a[0][::-1], [i])]
        if nd == 1:
            ops += [('matmul_r1d', None, [i])] * 4 + [('dot', None, [i])] * 2
        if nd == 2:
            ops += [('matmul_r', None, [i])] * 4 + [('matmul_l', None, [i])] * 2
    # ---- unary / with constants
    ops += [('neg', lambda m, a: -a[0], [i]), ('add_const', None, [i]), ('mul_const', None, [i]), ('div_const', None, [i]),
            ('rsub_const', None, [i]), ('sum', None, [i]), ('ravel', lambda m, a: a[0].ravel(), [i]), ('T', lambda m, a: a[0].T, [i]),
            ('tile', None, [i]), ('repeat', None, [i]), ('index', None, [i])]
    if nd >= 1:
        ops += [('const_mix', None, [i]), ('const_mix', None, [i])]
        ops += [('sum_axis', None, [i]), ('slice', None, [i]), ('setitem', None, [i]), ('concat_self', None, [i]),
                ('stack', None, [i]), ('hstack', None, [i]), ('vstack', None, [i]), ('dstack', None, [i]), ('column_stack', None, [i]),
                ('array_split', None, [i]), ('split', None, [i]), ('kron', None, [i]), ('outer', None, [i]), ('block', None, [i])]
    if nd in (1, 2) and shape[0] >= 2:
        ops += [('setitem_view', None, [i])] * 2
    if nd == 1:
        ops += [('dot', None, [i]), ('inner', None, [i]), ('diag', None, [i]), ('diagflat', None, [i]), ('matmul_l', None, [i]),
                ('tensordot1', None, [i]), ('matmul_sel_l', None, [i]), ('matmul_sel_r1', None, [i])]
    if nd == 2:
        ops += [('trace', None, [i]), ('diag', None, [i]), ('tril', None, [i]), ('triu', None, [i]), ('matmul_l', None, [i]),
                ('matmul_r', None, [i]), ('multi_dot', None, [i]), ('hsplit', None, [i]), ('vsplit', None, [i]), ('tensordot1', None, [i]),
                ('dot', None, [i]), ('matmul_sel_l', None, [i]), ('matmul_sel_r', None, [i])]
    if nd == 3:
        ops += [('dsplit', None, [i]), ('trace3', None, [i])]
    # ---- binary with another array of a broadcast-compatible shape
    same = [(j, w) for j, w in arr if w[2] == shape and j != i]
    if same:
        j = rng.choice(same)[0]
        ax2 = rng.choice([0, -1]) if nd else 0
        ops += [('add', lambda m, a: a[0] + a[1], [i, j]), ('sub', lambda m, a: a[0] - a[1], [i, j]),
                ('concat2', lambda m, a: m.concatenate((a[0], a[1])) if nd >= 1 else m.stack((a[0], a[1])), [i, j]),
                ('stack2', lambda m, a: m.stack([a[0], a[1]], axis=ax2), [i, j])]
    name, fn, ins = rng.choice(ops)
    if fn is not None:
        return name, fn, ins
    # parametrised operators: draw the parameters once, close over them
    if name == 'add_const':
        c = rc(rng, shape if rng.random() < 0.6 else (shape[-1:] if nd else []))
        side = rng.random() < 0.5
        return name, (lambda m, a: a[0] + c) if side else (lambda m, a: c + a[0]), ins
    if name == 'mul_const':
        c = rc(rng, shape if rng.random() < 0.5 else [])
        side = rng.random() < 0.5
        return name, (lambda m, a: a[0] * c) if side else (lambda m, a: c * a[0]), ins
    if name == 'div_const':
        c = float(rng.choice([2, 4, -2, 0.5]))
        return name, lambda m, a: a[0] / c, ins
    if name == 'rsub_const':
        c = rc(rng, shape)
        return name, lambda m, a: c - a[0], ins
    if name == 'sum':
        return name, lambda m, a: m.sum(a[0]), ins
    if name == 'sum_axis':
        ax = rng.randrange(nd)
        kd = rng.random() < 0.3
        return name, (lambda m, a: m.sum(a[0], axis=ax, keepdims=True)) if kd else (lambda m, a: m.sum(a[0], axis=ax)), ins
    if name == 'tile':
        reps = rng.choice([2, (2, 1), (1, 2)])
        return name, lambda m, a: m.tile(a[0], reps), ins
    if name == 'repeat':
        r = rng.randint(1, 2)
        ax = None if nd == 0 or rng.random() < 0.4 else rng.randrange(nd)
        return name, lambda m, a: m.repeat(a[0], r, axis=ax), ins
    if name == 'index':
        tup = tuple(rng.randrange(s) for s in shape)
        return name, lambda m, a: a[0][tup], ins
    if name == 'slice':
        ax = rng.randrange(nd)
        lo = rng.randrange(shape[ax])
        hi = rng.randint(lo + 1, shape[ax])
        sl = tuple(slice(lo, hi) if k == ax else slice(None) for k in range(nd))
        return name, lambda m, a: a[0][sl], ins
    if name == 'setitem':
        tup = tuple(rng.randrange(s) for s in shape)
        val = float(rng.choice([0, 1, -3]))
        others = [j for j, w in arr if w[2] == [] or True]

        def f(m, a):
            b = a[0].copy()
            if m is not np:
                b = m.Expression(b)          # item assignment is defined on Expressions (Variables refuse it)
            b[tup] = val
            return b
        return name, f, ins
    if name == 'setitem_view':
        # use the array (a product reads all its coefficients), assign through a VIEW of it (a slice, the transpose, the reversal),
        # use it again: as in numpy the view shares the cells, and whatever the array remembers of the first use must not show
        c = rc(rng, [rng.randint(1, 2), shape[0]])
        how = rng.choice(['tail', 'T', 'rev']) if nd == 2 else rng.choice(['tail', 'rev'])
        val = float(rng.choice([0, 1, -3, 10]))
        pos = rng.randrange(shape[0] - 1) if how == 'tail' else rng.randrange(shape[0])
        col = rng.randrange(shape[1]) if nd == 2 else None

        def f(m, a):
            b = a[0].copy()
            if m is not np:
                b = m.Expression(b)
            first = c @ b
            v = b[1:] if how == 'tail' else (b.T if how == 'T' else b[::-1])
            if nd == 1:
                v[pos] = val
            elif how == 'T':
                v[col, pos] = val
            else:
                v[pos, col] = val
            return [first, c @ b, b]
        return name, f, ins
    if name == 'concat_self':
        ax = rng.randrange(nd)
        c = rc(rng, shape)
        return name, lambda m, a: m.concatenate((a[0], c, a[0]), axis=ax), ins
    if name == 'stack':
        ax = rng.randrange(nd + 1)
        return name, lambda m, a: m.stack([a[0], a[0]], axis=ax), ins
    if name in ('hstack', 'vstack', 'dstack', 'column_stack'):
        c = rc(rng, shape)
        return name, lambda m, a: getattr(m, name)((a[0], c)), ins
    if name == 'array_split':
        k = rng.randint(1, 3)
        ax = rng.randrange(nd)
        return name, lambda m, a: m.array_split(a[0], k, axis=ax), ins
    if name == 'split':
        ax = rng.randrange(nd)
        idx = sorted({rng.randint(0, shape[ax]) for _ in range(rng.randint(1, 2))})
        return name, lambda m, a: m.split(a[0], idx, axis=ax), ins
    if name in ('hsplit', 'vsplit', 'dsplit'):
        ax = {'hsplit': 1, 'vsplit': 0, 'dsplit': 2}[name]
        idx = sorted({rng.randint(0, shape[ax]) for _ in range(rng.randint(1, 2))})
        return name, lambda m, a: getattr(m, name)(a[0], idx), ins
    if name == 'kron':
        c = rc(rng, [rng.randint(1, 2)] * max(1, min(nd, 2)))
        side = rng.random() < 0.5
        return name, (lambda m, a: m.kron(a[0], c)) if side else (lambda m, a: m.kron(c, a[0])), ins
    if name == 'outer':
        c = rc(rng, [rng.randint(1, 3)])
        side = rng.random() < 0.5
        return name, (lambda m, a: m.outer(a[0], c)) if side else (lambda m, a: m.outer(c, a[0])), ins
    if name == 'block':
        c = rc(rng, shape)
        if nd == 1:
            return name, lambda m, a: m.block([a[0], c]), ins
        return name, lambda m, a: m.block([[a[0], c], [c, a[0]]]) if nd == 2 else m.block([a[0], c]), ins
    if name == 'dot':
        c = rc(rng, [shape[-1]] if nd == 1 else [shape[-1], rng.randint(1, 2)])
        return name, lambda m, a: m.dot(a[0], c), ins
    if name == 'inner':
        c = rc(rng, [shape[0]])
        return name, lambda m, a: m.inner(c, a[0]), ins
    if name == 'diag':
        k = rng.choice([0, 1, -1]) if nd == 1 or min(shape) > 1 else 0
        return name, lambda m, a: m.diag(a[0], k), ins
    if name == 'diagflat':
        return name, lambda m, a: m.diagflat(a[0]), ins
    if name in ('tril', 'triu'):
        k = rng.choice([0, 1, -1])
        return name, lambda m, a: getattr(m, name)(a[0], k), ins
    if name == 'trace':
        off = rng.choice([0, 1]) if min(shape) > 1 else 0
        return name, lambda m, a: m.trace(a[0], off), ins
    if name == 'trace3':
        return name, lambda m, a: m.trace(a[0], 0, 0, 2), ins
    if name == 'matmul_l':
        c = rc(rng, [rng.randint(1, 3), shape[0]])
        return name, lambda m, a: c @ a[0], ins
    if name == 'const_mix':
        # a vector holding the cells of the input AND several distinct purely constant cells, pushed through a matrix whose
        # rows pick single cells (so that several result cells are distinct pure constants), from the left or from the right
        size = int(np.prod(shape))
        cvals = np.array([10.0, 20.0, -30.0, 0.0, 7.5][:rng.randint(2, 5)])
        tot = size + len(cvals)
        rows_ = rng.randint(2, tot + 1)
        sel = np.zeros((rows_, tot))
        for r_ in range(rows_):
            sel[r_, rng.randrange(tot)] = float(rng.choice([1, 1, 2, -1]))
        left = rng.random() < 0.5
        if left:
            return name, lambda m, a: sel @ m.concatenate((a[0].ravel(), cvals)), ins
        return name, lambda m, a: m.concatenate((a[0].ravel(), cvals)) @ sel.T, ins
    if name in ('matmul_sel_l', 'matmul_sel_r', 'matmul_sel_r1'):
        # selection / permutation matrices (rows with a single nonzero entry): result cells that are copies of single cells,
        # in particular of purely constant cells
        k = shape[0] if name == 'matmul_sel_l' else shape[-1]
        rows_ = rng.randint(1, k + 1)
        sel = np.zeros((rows_, k))
        for r_ in range(rows_):
            sel[r_, rng.randrange(k)] = float(rng.choice([1, 1, 1, 2, -1]))
        if name == 'matmul_sel_l':
            return name, lambda m, a: sel @ a[0], ins
        return name, lambda m, a: a[0] @ sel.T, ins
    if name == 'matmul_r':
        c = rc(rng, [shape[1], rng.randint(1, 3)])
        return name, lambda m, a: a[0] @ c, ins
    if name == 'matmul_r1d':
        c = rc(rng, [shape[0], rng.randint(1, 3)])
        return name, lambda m, a: a[0] @ c, ins
    if name == 'multi_dot':
        c1 = rc(rng, [2, shape[0]])
        c2 = rc(rng, [shape[1], 2])
        return name, lambda m, a: m.linalg.multi_dot([c1, a[0], c2]) if m is np else m.multi_dot([c1, a[0], c2]), ins
    if name == 'tensordot1':
        c = rc(rng, [shape[-1], 2])
        return name, lambda m, a: m.tensordot(a[0], c, 1), ins
    return None


def make_vars(rng, tag):
    import sageopt.coniclifts as cl
    vs = []
    for k in range(rng.randint(1, 3)):
        kind = rng.choice(['0d', 'size1', 'vec', 'vec', 'mat', 'mat', '3d', 'sym'])
        name = 'c08_%s_%d' % (tag, k)
        if kind == '0d':
            v = cl.Variable(shape=(), name=name)
        elif kind == 'size1':
            v = cl.Variable(shape=(1,), name=name)
        elif kind == 'vec':
            v = cl.Variable(shape=(rng.randint(2, 3),), name=name)
        elif kind == 'mat':
            v = cl.Variable(shape=(rng.randint(1, 3), rng.randint(2, 3)), name=name)
        elif kind == '3d':
            v = cl.Variable(shape=(2, rng.randint(1, 2), 2), name=name)
        else:
            v = cl.Variable(shape=(2, 2), name=name, var_properties=['symmetric'])
        vs.append(v)
    return vs


class ClNS:
    """the coniclifts namespace presented like numpy's (the operators live in sageopt.coniclifts)"""

    def __init__(self):
        import sageopt.coniclifts as cl
        self.cl = cl
        self.Expression = cl.Expression

    def __getattr__(self, n):
        return getattr(self.cl, n)


def run_program(ctx, rng, tag, nsteps):
    """returns (steps for the model, violations)"""
    import sageopt.coniclifts as cl
    from sageopt.coniclifts.base import Expression
    vs = make_vars(rng, tag)
    id2k, k = {}, 0
    for v in vs:
        for sid in v.scalar_variable_ids:
            if sid not in id2k:
                id2k[sid] = k
                k += 1
    nbase = k
    vals = [(v.name, v.view(Expression) if rng.random() < 0.5 else v, list(v.shape)) for v in vs]
    steps, viols = [], []
    clns = ClNS()
    for s in range(nsteps):
        g = gen_step(rng, vals)
        if g is None:
            break
        name, fn, ins = g
        args = [vals[i][1] for i in ins]
        # ---- wiring from numpy on probes
        pargs, pk = [], 0
        for a in args:
            pa, pk = probe_array(a.shape, pk)
            pargs.append(pa)
        try:
            pres = fn(np, pargs)
        except Exception as e:  # noqa: BLE001
            ctx.count('probe-raises:' + name)
            continue
        pouts = list(pres) if isinstance(pres, (list, tuple)) else [pres]
        wire, pshapes = wire_of(pouts)
        # validate the wiring against numpy on float arrays
        fargs = [np.array([float(rng.randint(-3, 3)) for _ in range(a.size)]).reshape(a.shape) for a in args]
        fres = fn(np, fargs)
        fouts = list(fres) if isinstance(fres, (list, tuple)) else [fres]
        flat_in = np.concatenate([f.ravel() for f in fargs]) if fargs else np.zeros(0)
        flat_out = np.concatenate([np.asarray(f, dtype=float).ravel() for f in fouts])
        pred = np.array([float(F(o)) + sum(float(F(q)) * flat_in[i] for i, q in row) for row, o in zip(wire['rows'], wire['off'])])
        if pred.shape != flat_out.shape or not np.allclose(pred, flat_out, atol=1e-9):
            raise common.DriverError('probe wiring of %s disagrees with numpy on floats' % name)
        # ---- the real thing
        try:
            res = fn(clns, args)
        except Exception as e:  # noqa: BLE001
            viols.append(('operator %s on Expressions of shapes %s raised %s: %s (numpy computes a result of shape %s)'
                          % (name, [list(a.shape) for a in args], type(e).__name__, str(e)[:100], pshapes), None))
            continue
        routs = list(res) if isinstance(res, (list, tuple)) else [res]
        in_cells = []
        for a in args:
            in_cells += cells_of(a, id2k)[1]
        out_shapes, out_cells = [], []
        for r in routs:
            sh, cs = cells_of(r, id2k)
            out_shapes.append(sh)
            out_cells += cs
        if out_shapes != pshapes:
            viols.append(('operator %s: result shapes %s, numpy gives %s' % (name, out_shapes, pshapes), None))
        steps.append({'op': name, 'wire': wire, 'ins': in_cells, 'out': out_cells, 'shapes': out_shapes,
                      'in_shapes': [list(a.shape) for a in args]})
        ctx.count('op:' + name)
        # type of the result: Expression / ScalarExpression where numpy gives an array / a scalar
        for r, ps in zip(routs, pshapes):
            from sageopt.coniclifts.base import ScalarExpression
            if ps == [] and not isinstance(r, (ScalarExpression, Expression)):
                viols.append(('operator %s: numpy gives a scalar but coniclifts returned %s' % (name, type(r).__name__), None))
            if ps != [] and not isinstance(r, Expression):
                viols.append(('operator %s returned %s instead of an Expression' % (name, type(r).__name__), None))
        # ---- value oracle: numpy on values under a random assignment
        sigma = [F(rng.randint(-4, 4), rng.choice([1, 2])) for _ in range(nbase)]
        for v in vs:
            v.value = np.array([float(sigma[id2k[sid]]) for sid in v.scalar_variable_ids]).reshape(v.shape)
        try:
            num_args = [np.asarray(a.value if isinstance(a, Expression) else a, dtype=float) for a in args]
            want = fn(np, num_args)
            wants = list(want) if isinstance(want, (list, tuple)) else [want]
            for r, w in zip(routs, wants):
                got = np.asarray(r.value, dtype=float)
                if got.shape != np.asarray(w).shape or not np.allclose(got, np.asarray(w, dtype=float), atol=1e-9):
                    viols.append(('operator %s: value %s under an assignment differs from numpy on the values %s'
                                  % (name, got.tolist(), np.asarray(w).tolist()), None))
        except Exception as e:  # noqa: BLE001
            viols.append(('operator %s: evaluating .value raised %s' % (name, type(e).__name__), None))
        # keep results for later steps
        for r, sh in zip(routs, out_shapes):
            if isinstance(r, np.ndarray) and 1 <= r.size <= 24 and len(sh) <= 3:
                vals.append(('t%d' % len(vals), r, sh))
    return steps, viols, vs, id2k


def nonlinear_stream(ctx, rng, count):
    """values of the nonlinear operators = their mathematical definitions, with repeated and constant arguments;
    introspection; are_equivalent"""
    import sageopt.coniclifts as cl
    from sageopt.coniclifts.base import Expression
    from sageopt.coniclifts.operators.abs import abs as cl_abs
    from sageopt.coniclifts.operators.pos import pos as cl_pos
    viols = []
    for t in range(count):
        y = cl.Variable(shape=(3,), name='c08nl_%d_%d' % (ctx.seed, t))
        yv = np.array([rng.randint(-4, 6) / 4.0 for _ in range(3)])
        y.value = yv
        n = rng.randint(1, 3)
        idx = [rng.randrange(3) for _ in range(n)]            # repeats allowed
        consts = [rng.random() < 0.2 for _ in range(n)]
        args = [float(rng.randint(1, 3)) if c else (y[i] * float(rng.choice([1, 2, 0.5, -1, -2])) + float(rng.choice([0, 1, -3]))) for i, c in zip(idx, consts)]
        argv = [a if isinstance(a, float) else float(a.value) for a in args]
        w = np.array([float(rng.choice([1, 2, 0.5, 0])) for _ in range(n)])
        kind = rng.choice(['wse', 'relent', 'norm', 'abs', 'pos'])
        ctx.case({'stream': 'nonlinear', 'kind': kind, 'idx': idx, 'consts': consts})
        ctx.count('stream:nonlinear')
        ctx.count('nl:' + kind + (':repeated' if len(set(idx)) < n else '') + (':const' if any(consts) else ''))
        try:
            if kind == 'wse':
                e = cl.weighted_sum_exp(w, Expression(args))
                want = float(np.sum(w * np.exp(argv)))
            elif kind == 'relent':
                pos_args = [abs(a) + 0.5 for a in argv]
                ex = Expression([a * a if False else a for a in args])
                x = Expression([(a if isinstance(a, float) else a) for a in args])
                # make arguments positive: x_i := arg_i - min + 1/2 is still affine
                shift = [(-v + abs(v) + 0.5) for v in argv]
                x = Expression([a + s for a, s in zip(args, shift)])
                xv = [v + s for v, s in zip(argv, shift)]
                yy = Expression([float(rng.choice([1, 2]))] * n) if rng.random() < 0.5 else x * 2.0
                yyv = np.asarray(yy.value, dtype=float).ravel().tolist()
                e = cl.relent(x, yy)
                want = float(sum(a * math.log(a / b) for a, b in zip(xv, yyv)))
            elif kind == 'norm':
                e = cl.vector2norm(Expression(args))
                want = float(np.linalg.norm(argv))
            elif kind == 'abs':
                e = cl_abs(Expression(args))
                want = np.abs(argv)
            else:
                e = cl_pos(Expression(args))
                want = np.maximum(argv, 0)
            got = np.asarray(e.value, dtype=float)
            if not np.allclose(got.ravel(), np.asarray(want, dtype=float).ravel(), atol=1e-9, rtol=1e-9):
                viols.append(('%s with arguments at components %s (constants: %s): value %s, mathematical definition %s'
                              % (kind, idx, consts, got.ravel().tolist(), np.asarray(want).ravel().tolist()),
                              {'kind': kind, 'idx': idx, 'consts': consts}))
            # introspection
            used = sorted({i for i, c in zip(idx, consts) if not c})
            if kind == 'wse':
                used = sorted({i for i, c, wi in zip(idx, consts, w) if not c and wi != 0})
            svs = {sv.id for sv in e.scalar_variables()}
            want_ids = {y.scalar_variable_ids[i] for i in used}
            if svs != want_ids:
                viols.append(('%s: scalar_variables() reports ids %s, the value depends on %s' % (kind, sorted(svs), sorted(want_ids)), None))
            try:
                atoms = e.scalar_atoms()
                if not isinstance(atoms, list):
                    viols.append(('%s: scalar_atoms() returned %s' % (kind, type(atoms).__name__), None))
            except Exception as ex2:  # noqa: BLE001
                viols.append(('Expression.scalar_atoms() raised %s: %s' % (type(ex2).__name__, str(ex2)[:80]), {'F5': True}))
        except Exception as ex:  # noqa: BLE001
            viols.append(('%s raised %s: %s' % (kind, type(ex).__name__, str(ex)[:100]), None))
    # atoms of DIFFERENT kinds over the SAME affine argument, combined in one scalar expression and evaluated where the kinds differ
    kinds = {'abs': (lambda e: cl_abs(e), lambda v: np.abs(v)), 'pos': (lambda e: cl_pos(e), lambda v: np.maximum(v, 0)),
             'exp': (lambda e: cl.weighted_sum_exp(np.array([1.0]), e), lambda v: np.exp(v)), 'norm': (lambda e: cl.vector2norm(e), lambda v: np.abs(v))}
    for t in range(max(4, count // 4)):
        x = cl.Variable(shape=(2,), name='c08mix_%d_%d' % (ctx.seed, t))
        k1, k2 = rng.sample(sorted(kinds), 2)
        co = [float(rng.choice([-2, -1, 1, 2, 3])) for _ in range(2)]
        off = float(rng.choice([-1, 0, 1]))
        c1, c2 = (float(v) for v in rng.sample([1.0, 2.0, 3.0, -1.0, 0.5], 2))
        a = Expression([co[0] * x[0] + co[1] * x[1] + off])
        try:
            e = c1 * np.asarray(kinds[k1][0](a), dtype=object).flat[0] + c2 * np.asarray(kinds[k2][0](a), dtype=object).flat[0]
            for sign in (-1, 1):
                x.value = np.array([sign * 0.75 / co[0], sign * 0.5 / co[1]]) - np.array([off / co[0], 0.0])
                av = co[0] * x.value[0] + co[1] * x.value[1] + off
                want = c1 * float(kinds[k1][1](av)) + c2 * float(kinds[k2][1](av))
                got = float(np.asarray(e.value, dtype=float).ravel()[0])
                ctx.case({'stream': 'mixed-atoms', 'kinds': [k1, k2], 'arg': av})
                ctx.count('stream:mixed-atoms')
                if abs(got - want) > 1e-9 * max(1.0, abs(want)):
                    viols.append(('%g*%s(a) + %g*%s(a) with a = %g evaluates to %.9g, the definition gives %.9g' % (c1, k1, c2, k2, av, got, want), None))
                    break
            natoms = len(e.atoms_to_coeffs)
            if natoms != 2:
                viols.append(('%s(a) and %s(a) over the same argument are %d scalar atom(s) of their sum instead of 2' % (k1, k2, natoms), None))
        except Exception as ex:  # noqa: BLE001
            viols.append(('mixed atoms %s / %s raised %s: %s' % (k1, k2, type(ex).__name__, str(ex)[:100]), None))
    # are_equivalent: total, sound, complete on affine
    for t in range(count):
        x = cl.Variable(shape=(2,), name='c08eq_%d_%d' % (ctx.seed, t))
        z = cl.Variable(shape=(2,), name='c08eqz_%d_%d' % (ctx.seed, t))
        pairs = [(x + z, x, False), (x, x + z, False), (x - x + z, z, True), (2 * x + 1, x + x + 1, True), (x + 1, x + 2, False),
                 (x, z, False), (x[0], x, False), (x * 0.5 + z, z + 0.5 * x, True)]
        # nonlinear atoms of DIFFERENT kinds whose ids coincide (every atom class numbers its atoms from its own counter)
        def atom_id(e):
            return list(e.flat[0].atoms_to_coeffs.keys())[0].id
        xa, xp = cl_abs(x[0:1]), cl_pos(x[0:1])
        for _ in range(200):
            ia, ip = atom_id(xa), atom_id(xp)
            if ia == ip:
                break
            if ia < ip:
                xa = cl_abs(x[0:1])
            else:
                xp = cl_pos(x[0:1])
        pairs += [(xa, xp, False), (2 * xa + 1, 2 * xp + 1, False), (xa + z[0:1], z[0:1] + xa, True), (xa, x[0:1], False)]
        # objects typed Variable whose coefficients are not 1 (x / 2 keeps the type)
        dv = float(rng.choice([2, 4, -2, 0.5]))
        pairs += [(x / dv, x, False), (x / dv, x * (1.0 / dv), True), ((x / dv)[::-1], x[::-1] * (1.0 / dv), True),
                  (x[::-1], x, False), (x[::-1][::-1], x, True)]
        # the same nonlinear atoms met in a different order: the weights sit on different atoms, the functions differ
        c1, c2 = rng.sample([1.0, 2.0, 3.0, -1.0, 0.5], 2)
        aa, ab = cl_abs(x), cl_abs(x[::-1])
        pa, pb = cl_pos(x), cl_pos(x[::-1])
        pairs += [(c1 * aa[0] + c2 * aa[1], c1 * ab[0] + c2 * ab[1], False), (c1 * pa[0] + c2 * pa[1], c1 * pb[0] + c2 * pb[1], False),
                  (cl.weighted_sum_exp(np.array([abs(c1), abs(c1) + 1]), x), cl.weighted_sum_exp(np.array([abs(c1), abs(c1) + 1]), x[::-1]), False),
                  (c1 * aa[0] + c2 * aa[1], c2 * aa[1] + c1 * aa[0], True)]
        for pk, (a, b, want) in enumerate(pairs):
            ctx.case({'stream': 'are_equivalent', 'pair': pk})
            ctx.count('stream:are_equivalent')
            try:
                got = Expression.are_equivalent(a, b)
            except Exception as ex:  # noqa: BLE001
                viols.append(('Expression.are_equivalent raised %s (%s) on pair #%d' % (type(ex).__name__, str(ex)[:60], pk), None))
                continue
            if bool(got) != want:
                viols.append(('Expression.are_equivalent is %s on pair #%d whose members are %sfunctionally equal Expressions'
                              % (got, pk, '' if want else 'not '), None))
    return viols


def run(ctx):
    rng = ctx.rng
    ctx.lean = common.lean_check('C08')
    quick = ctx.quick()
    common.run_regressions(ctx, 'C08', recheck)
    NP = 120 if quick else 1200
    nsteps = 6 if quick else 8
    all_steps, viols = [], []
    for p in range(NP):
        # every program runs from its own sub-seed, so that a stored violation can be executed again (recheck)
        pseed, ns = rng.randrange(1 << 30), rng.randint(2, nsteps)
        steps, v, vs, id2k = run_program(ctx, random.Random(pseed), '%d_%d' % (ctx.seed, p), ns)
        all_steps += steps
        viols += [(w, dict(rep or {}, pseed=pseed, nsteps=ns)) for w, rep in v]
        ctx.case({'stream': 'program', 'ops': [s['op'] for s in steps]}, nontrivial=len(steps) >= 2)
    mouts = run_driver([{'op': 'wiring.apply', 'wire': s['wire'], 'ins': s['ins']} for s in all_steps])
    for s, mo in zip(all_steps, mouts):
        if isinstance(mo, dict) and ('error' in mo or 'raises' in mo):
            raise common.DriverError(str(mo))
        ctx.count('stream:step')
        if common.canon_json(mo['out']) != common.canon_json(s['out']):
            ctx.disagreement('step', {'op': s['op'], 'in_shapes': s['in_shapes'], 'ins': s['ins'], 'wire': s['wire']}, s['out'], mo['out'])
        else:
            ctx.traces_validated += 1
    nlseed, nlcount = rng.randrange(1 << 30), 60 if quick else 600
    viols += [(w, dict(rep or {}, nlseed=nlseed, nlcount=nlcount)) for w, rep in nonlinear_stream(ctx, random.Random(nlseed), nlcount)]
    seen = set()
    for what, rep in viols:
        key = what[:70]
        if key in seen and len(seen) > 30:
            continue
        seen.add(key)
        ctx.violation('expressions: ' + what, rep or {})
    ops_seen = sorted(k[3:] for k in ctx.hist if k.startswith('op:'))
    ctx.extra['operators_exercised'] = ops_seen
    if (not ctx.lean.ok or ctx.disagreements) and not ctx.violations:
        common.broken_report(ctx, 'numpy-on-values oracle found no failing program among %d' % NP)
    return ctx.finish(
        level='proof',
        rule='random straight-line programs (<= %d steps) over 1-3 Variables (0-d, size-1, vector, matrix, 3-d, symmetric; as Variable or '
             'Expression view) and dyadic constants, operators drawn from arithmetic, indexing, slicing, item assignment, matmul and the '
             'affine operator library; nonlinear operators with repeated / constant arguments; are_equivalent pairs; '
             'non-trivial = program with >= 2 steps; distinct = distinct operator sequence' % nsteps,
        trusted=TRUSTED, assumptions=ASSUME)


def recheck(r):
    """run the stored program (or nonlinear / equivalence stream) again from its sub-seed; the violation it (still) shows"""
    ctx = common.RecCtx()
    if 'pseed' in r:
        steps, v, vs, id2k = run_program(ctx, random.Random(r['pseed']), 'replay', r['nsteps'])
        return ('expressions: ' + v[0][0]) if v else None
    if 'nlseed' in r:
        v = nonlinear_stream(ctx, random.Random(r['nlseed']), r['nlcount'])
        return ('expressions: ' + v[0][0]) if v else None
    return None


def replay(obj):
    print('what:', obj['what'])
    print(common.canon_json(obj['replay'])[:1500])
    return 1
