"""
C02 -- the dual SAGE constraint admits every moment vector of X.

Model: lean/SageoptModel/Model/Sage.lean (dual rows); theorems: Props/C02.lean.
Tie (structural): random (alpha, X incl. lifted, sign information c, covers, settings, v a Variable or an affine image)
-> real DualSageCone, compiled rows compared with the model.
Audit: for sampled points x~ of (lifted) X and scales t >= 0 the assignment v = t*exp(alpha x), mu_i = v_i * x~
(epi_ij = v_i (alpha_i - alpha_j).x in the epigraph form) is plugged into the REAL compiled system A s + b in K.
"""
import math
from fractions import Fraction as F

import numpy as np

import clmodel as clm
import common
import sagemodel as sm
from common import run_driver

TRUSTED = [
    'Lean 4.33.0 kernel; axioms of every theorem in Props/C02*.lean within {propext, Classical.choice, Quot.sound}',
    'harness/sagemodel.py (instance generator, serialisation), harness/clmodel.py (cone membership with margins)',
    'Driver.lean / Drv/Sage.lean glue',
]
ASSUME = [
    'membership of the moment assignment in the real compiled system is decided in floating point with a 1e-7 margin '
    '(points too close to a cone boundary are inconclusive)',
]


def structural(ctx, rng, count, all32):
    cases, lines, outs, builts = [], [], [], []
    for k in range(count):
        inst = sm.gen_instance(rng, primal=False)
        if inst['X'] is None and rng.random() < 0.15:
            # a change of units in some coordinates: column j of alpha times 2^-43 (about 1e-13; exact in binary), the points of
            # R^n scaled the other way: the same moment vectors
            ks = [rng.choice([0, 43]) for _ in range(inst['n'])]
            if not any(ks):
                ks[rng.randrange(inst['n'])] = 43
            inst['alpha'] = [[common.frac_str(F(x) / 2 ** k) for x, k in zip(r, ks)] for r in inst['alpha']]
            inst['xscale'] = [2 ** k for k in ks]
        setts = list(sm.all_settings()) if all32 else [sm.DEFAULTS] + [sm.rand_settings(rng) for _ in range(3)]
        for s in setts:
            try:
                b = sm.build(inst, s)
            except Exception as e:  # noqa: BLE001
                ctx.count('construct-raises:' + type(e).__name__)
                continue
            line = sm.model_line(inst, s, b)
            try:
                io = sm.impl_compile(b)
            except Exception as e:  # noqa: BLE001
                io = {'raises': type(e).__name__, 'msg': str(e)[:160]}
            cases.append({'inst': inst, 'settings': s})
            lines.append(line)
            outs.append(io)
            builts.append(b)
    mouts = run_driver(lines)
    res = []
    for c, line, io, mo, b in zip(cases, lines, outs, mouts, builts):
        ctx.case({'stream': 'structure', 'case': c}, nontrivial=len(c['inst']['alpha']) >= 2)
        ctx.count('stream:structure')
        ctx.count('X:' + ('none' if c['inst']['X'] is None else ('lifted' if c['inst']['X']['N'] > c['inst']['n'] else 'plain')))
        ctx.count('v:' + ('variable' if c['inst']['v'] is None else 'affine-image'))
        if isinstance(mo, dict) and 'error' in mo:
            raise common.DriverError(mo['error'])
        if 'raises' in io or 'raises' in mo:
            if ('raises' in io) != ('raises' in mo):
                ctx.disagreement('structure', c, io, mo)
            else:
                ctx.count('raises:both')
                ctx.traces_validated += 1
            continue
        if not sm.systems_equal(io, mo):
            a, m = sm.canon_pair(io, mo)
            ctx.disagreement('structure', c, a, m)
        else:
            ctx.traces_validated += 1
        res.append((c, line, io, b))
    return res


def moment_audit(ctx, rng, c, line, io, b, pinned=None):
    """returns (description of a violated row block, the point and scale) or None; `pinned` = [(point, scale)] to try first"""
    inst = c['inst']
    Cmat = dvec = None
    if inst['v'] is not None and not inst.get('vdiag'):
        # v = C w + d with general C: a w with C w + d = t*exp(alpha x) exists for every moment vector when C has full row rank
        nuser = int(b.user.size)
        Cmat = np.zeros((len(inst['v']), nuser))
        for j, sp in enumerate(inst['v']):
            for k, cv in sp['co']:
                Cmat[j, k] += float(F(cv))
        dvec = np.array([float(F(sp['off'])) for sp in inst['v']])
        if np.linalg.matrix_rank(Cmat) < Cmat.shape[0] or inst.get('xscale'):
            return None      # (the rescaled family has entries of size 2^43: a numerically solved w is not exact enough there)
    alpha = np.array([[float(F(x)) for x in r] for r in inst['alpha']], dtype=float)
    m, n = alpha.shape
    pts = sm.domain_points(inst['X'], n, rng, 6, lifted=True)
    if inst.get('xscale'):
        pts = [[v * sc for v, sc in zip(p, inst['xscale'])] for p in pts]
    vids = [int(i) for i in (b.vvar if inst['v'] is None else b.user).scalar_variable_ids]
    plan = [(list(xt), [float(t)]) for xt, t in (pinned or [])] + [(xt, (0.0, 1.0, rng.choice([0.5, 2.0, 3.0]))) for xt in pts]
    for xt, ts in plan:
        x = np.asarray(xt[:n])
        for t in ts:
            v = t * np.exp(alpha @ x)
            if inst['v'] is None:
                sigma = {vid: float(v[j]) for j, vid in enumerate(vids)}
            elif Cmat is not None:
                if t > 0 and float(np.max(v)) > 1e3 * float(np.min(v)):
                    continue     # (entries of very different size: a numerically solved w reproduces the small ones too coarsely)
                w = np.linalg.lstsq(Cmat, v - dvec, rcond=None)[0]
                if np.max(np.abs(Cmat @ w + dvec - v)) > 1e-12 * max(1.0, float(np.max(np.abs(v)))):
                    continue
                sigma = {vid: float(w[j]) for j, vid in enumerate(vids)}
            else:   # w_j = (v_j - d_j) / a_j
                sigma = {vids[j]: (float(v[j]) - float(F(sp['off']))) / float(F(sp['co'][0][1])) for j, sp in enumerate(inst['v'])}
            for d in line['ids']:
                i = d['i']
                for k, mid in enumerate(d['mu']):
                    sigma[mid] = float(v[i] * xt[k]) if k < len(xt) else 0.0
                cov = [j for j, bit in enumerate(dict((a, c2) for a, c2 in io['ech']['covers'])[i]) if bit]
                for k, eid in enumerate(d['epi']):
                    j = cov[k]
                    sigma[eid] = float(v[i] * ((alpha[i] - alpha[j]) @ x))
            xs = [sigma.get(cid, 0.0) for cid in io['cols']]
            mem = clm.system_member(io, xs, margin=1e-7)
            ctx.count('audit:points')
            if mem is False:
                return ('the moment assignment of the point x~=%s of X with scale t=%s (v = t*exp(alpha x), mu_i = v_i x~) violates the compiled '
                        'dual SAGE constraint' % (xt, t)), [list(xt), float(t)]
            if mem is None:
                ctx.count('audit:on-boundary(accepted)')     # moment vectors satisfy the relative-entropy rows with equality
    return None


def run(ctx):
    rng = ctx.rng
    ctx.lean = common.lean_check('C02')
    quick = ctx.quick()
    common.run_regressions(ctx, 'C02', recheck)
    res = structural(ctx, rng, 150 if quick else 600, all32=not quick)
    for c, line, io, b in res:
        why = moment_audit(ctx, rng, c, line, io, b)
        if why:
            ctx.violation('moment vector rejected: ' + why[0], {'stream': 'audit', 'case': c, 'point': why[1]})
    if (not ctx.lean.ok or ctx.disagreements) and not ctx.violations:
        common.broken_report(ctx, 'moment-vector audit found no failing input among %d structural cases' % len(res))
    return ctx.finish(
        level='proof',
        rule='random exponent matrices, X in {none, polyhedral, second-order / exponential cone, lifted}, optional sign information, '
             'automatic / full / user covers, default + random settings (all 32 per instance in the thorough tier), v a Variable or an '
             'affine image; audit: moment assignments of sampled points of X at t in {0, 1, random}; distinct = distinct JSON',
        trusted=TRUSTED, assumptions=ASSUME)


def recheck(r):
    """execute the stored input of a violation again; the violation it (still) shows, or None"""
    import random
    ctx, rng = common.RecCtx(), random.Random(0)
    c = r['case']
    b = sm.build(c['inst'], c['settings'])
    line = sm.model_line(c['inst'], c['settings'], b)
    io = sm.impl_compile(b)
    why = moment_audit(ctx, rng, c, line, io, b, pinned=[r['point']] if r.get('point') else None)
    return ('moment vector rejected: ' + why[0]) if why else None


def replay(obj):
    print('what:', obj['what'])
    print(common.canon_json(obj['replay'])[:2000])
    return 1
