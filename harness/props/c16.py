"""
C16 -- moment-reduction matrices express multiplier products exactly.

Model: lean/SageoptModel/Model/SymCorr.lean (+ Sig.lean, Lin.lean); theorems: Props/C16.lean.
Tie: row_correspondence / relative_coeff_vector / moment_reduction_array on random and
relaxation-shaped triples, permuted L.alpha, exponents differing beyond the 7th decimal; exact diff.
Oracle: expand s*h with `fractions` and compare with s.c . (C G_L).
"""
from fractions import Fraction as F

import numpy as np

import common
import sigtree as st
from common import correspond, frac_str

TRUSTED = [
    'Lean 4.33.0 kernel; axioms of every theorem in Props/C16*.lean within {propext, Classical.choice, Quot.sound}',
    'harness/props/c16.py, harness/sigtree.py (generators, exact reference)',
    'Driver.lean / Drv/SigL.lean glue',
]
ASSUME = [
    'exponents are half-integers (exact in float64) except in the dedicated beyond-7th-decimal stream, where the perturbations '
    'stay a factor >= 4 away from the matching tolerance',
]


def rows_json(rows):
    return [[frac_str(x) for x in r] for r in rows]


def rand_rows(rng, m, n, poly, tenths=False):
    seen, out = set(), []
    while len(out) < m:
        r = tuple(F(rng.randint(0, 3)) if poly else (F(rng.randint(-9, 12), 10) if tenths else F(rng.randint(-3, 5), 2)) for _ in range(n))
        if r not in seen:
            seen.add(r)
            out.append(list(r))
    return out


def leaf(rows, cs, n, poly, sym=False, purevar=None):
    t = {'k': 'sigL' if sym else 'sig', 'poly': poly, 'n': n, 'alpha': rows_json(rows), 'c': cs}
    if purevar is not None:
        t['purevar'] = purevar
    return t


# ---------------------------------------------------------------- implementation runners

def impl_rows(c):
    from sageopt.relaxations import symbolic_correspondences as sc
    a1 = np.array([[float(F(x)) for x in r] for r in c['a1']], dtype=float).reshape(len(c['a1']), c['n'])
    a2 = np.array([[float(F(x)) for x in r] for r in c['a2']], dtype=float).reshape(len(c['a2']), c['n'])
    common_, m = sc.row_correspondence(a1, a2)
    return {'common': [int(i) for i in common_], 'map': [int(i) for i in m]}


def impl_rcv(c):
    from sageopt.relaxations import symbolic_correspondences as sc
    # `graw`: the exponents as the caller writes them (two rows that differ beyond the 7th decimal only, e.g. 0.3 and 0.1 + 0.2); c['g']
    # holds what the constructor makes of them (ONE row with the sum of the coefficients), which is what the model and the oracle see
    g = st.build(c.get('graw', c['g']))
    ref = np.array([[float(F(x)) for x in r] for r in c['ref']], dtype=float).reshape(len(c['ref']), c['g']['n'])
    v = sc.relative_coeff_vector(g, ref)
    return {'c': [{'off': st.fr(x), 'co': []} for x in np.asarray(v, dtype=float).tolist()]}


def impl_mra(c):
    from sageopt.relaxations import symbolic_correspondences as sc
    # `values`: what the Variables hold when the matrix is built (left by an earlier solve: zeros where a multiplier was inactive);
    # the matrix is a statement about the symbolic coefficients and must not depend on it
    env = st.SymEnv(c['sizes'], values=c.get('values'))
    # `raw`: the exponents as the caller writes them (e.g. 1/3, off the 7-decimal grid); c['s'], c['h'] hold what the constructor
    # makes of them (rounded to 7 decimals), which is what the model and the oracle reason about
    s = st.build_sym(c.get('raw', c)['s'], env)
    h = st.build_sym(c.get('raw', c)['h'], env)
    if 'L0' in c:
        # L is what `without_zeros()` makes of a signomial with explicit zero coefficients whose coefficient table was looked at
        # before (query_coeff / alpha_c / ==): the stripped exponents are no longer exponents of L
        L0 = st.build_sym(c['L0'], env)
        _ = L0.alpha_c
        _ = L0.query_coeff(np.array([float(F(x)) for x in c['L0']['alpha'][0]]))
        _ = (L0 == L0)
        L = L0.without_zeros()
    else:
        L = st.build_sym(c['L'], env)
    C = sc.moment_reduction_array(s, h, L)
    return {'C': [[st.fr(x) for x in row] for row in np.asarray(C, dtype=float).tolist()]}


# ---------------------------------------------------------------- oracles

def oracle_rcv(c, io):
    """g's coefficients placed at the matching rows of alpha, zero elsewhere, independent of row order.
    (Rows of g that have no matching row in alpha contribute nothing: adjudicated as intended behaviour --
    sig_solrec relies on it, see DESIGN F15.)"""
    g = c['g']
    d = {}
    for r, v in zip(g['alpha'], g['c']):
        k = tuple(F(x) for x in r)
        d[k] = d.get(k, F(0)) + F(v)
    ref = [tuple(F(x) for x in r) for r in c['ref']]
    if 'raises' in io:
        return 'relative_coeff_vector raised %s' % io['raises']
    got = [F(x['off']) for x in io['c']]
    if len(got) != len(ref):
        return 'wrong length'
    if len(set(ref)) == len(ref):
        def coeff_at(k):
            # rows within 5e-9 of an exponent of g are that exponent; rows farther than 1e-7 from all of them are not
            near = [v for kk, v in d.items() if max(abs(a - b) for a, b in zip(kk, k)) <= F(5, 10 ** 9)]
            return near[0] if near else F(0)
        want = [coeff_at(k) for k in ref]
        if got != want:
            return 'coefficients %s are not g\'s coefficients placed at the matching rows %s' % (
                [str(x) for x in got], [str(x) for x in want])
    return None


def oracle_mra(c, io):
    s, h, L = c['s'], c['h'], c['L']
    Lrows = [tuple(F(x) for x in r) for r in L['alpha']]
    srows = [tuple(F(x) for x in r) for r in s['alpha']]
    hd = {}
    for r, v in zip(h['alpha'], h['c']):
        k = tuple(F(x) for x in r)
        hd[k] = hd.get(k, F(0)) + F(v)
    hd = {k: v for k, v in hd.items() if v != 0}
    need = {tuple(a + b for a, b in zip(si, hj)) for si in srows for hj in hd}
    missing = [k for k in need if k not in Lrows]
    if s['k'] == 'sig' and missing:
        # numeric multiplier coefficients: terms of s*h may cancel; the code's containment check is about the product it
        # computes, so a formally missing exponent whose coefficient cancels is outside the property's premise
        prod = {}
        for si, sv in zip(srows, s['c']):
            for hj, hv in hd.items():
                k = tuple(a + b for a, b in zip(si, hj))
                prod[k] = prod.get(k, F(0)) + F(sv) * hv
        if all(prod.get(k, F(0)) == 0 for k in missing):
            return None
    if 'raises' in io:
        return None if missing or c.get('expect_raise') else 'moment_reduction_array raised %s although supp(s*h) is contained in supp(L)' % io['raises']
    if missing:
        return 'exponent %s of s*h is absent from L but no error was raised' % ([str(x) for x in missing[0]],)
    C = [[F(x) for x in row] for row in io['C']]
    if len(C) != len(srows) or any(len(r) != len(Lrows) for r in C):
        return 'C has the wrong shape'
    for i, si in enumerate(srows):
        got = {}
        for k, v in zip(Lrows, C[i]):
            got[k] = got.get(k, F(0)) + v
        got = {k: v for k, v in got.items() if v != 0}
        want = {tuple(a + b for a, b in zip(si, hj)): v for hj, v in hd.items()}
        if got != want:
            return 'row %d of C does not express exp(alpha_%d . x) * h(x) in the monomials of L' % (i, i)
    return None


# ---------------------------------------------------------------- generators

def gen_rows_case(rng):
    n = rng.randint(1, 3)
    a2 = rand_rows(rng, rng.randint(1, 6), n, False)
    a1 = []
    for _ in range(rng.randint(1, 5)):
        r = rng.random()
        if r < 0.5:
            base = rng.choice(a2)
            a1.append(list(base))
        elif r < 0.75:
            base = rng.choice(a2)
            eps = rng.choice([F(2, 10 ** 9), F(-1, 10 ** 9), F(5, 10 ** 8), F(-1, 10 ** 7)])
            j = rng.randrange(n)
            row = list(base)
            row[j] = F(float(row[j] + eps))     # what the float actually is
            a1.append(row)
        else:
            a1.append(rand_rows(rng, 1, n, False)[0])
    if rng.random() < 0.2:
        a2.append(list(a2[0]))    # duplicate reference row: first match wins
    return {'n': n, 'a1': rows_json(a1), 'a2': rows_json(a2)}


def gen_rcv_case(rng, allow_missing):
    n = rng.randint(1, 3)
    poly = rng.random() < 0.4
    m = rng.randint(1, 4)
    rows = rand_rows(rng, m, n, poly)
    cs = [frac_str(F(rng.choice([-3, -1, 1, 2, 5, 0]))) for _ in range(m)]
    extra = [r for r in rand_rows(rng, rng.randint(0, 3), n, poly) if r not in rows]
    ref = rows + extra
    rng.shuffle(ref)
    kind = 'present'
    if not poly and rng.random() < 0.2:
        # two DISTINCT exponents of g that differ in the 6th / 7th decimal only (also on large exponents, where the difference is
        # relatively tiny): each coefficient has its own row
        base = list(rng.choice(rows))
        j = rng.randrange(n)
        if rng.random() < 0.5:
            base[j] = F(rng.choice([250, -120, 40]))
        twin = list(base)
        twin[j] = base[j] + rng.choice([F(1, 10 ** 6), F(3, 10 ** 7), F(-1, 10 ** 7), F(2, 10 ** 5) if abs(base[j]) >= 40 else F(1, 10 ** 6)])
        rows = [r for r in rows if r != base and r != twin] + [base, twin]
        cs = [frac_str(F(rng.choice([-3, -1, 1, 2, 5]))) for _ in rows]
        cs[-1] = frac_str(F(cs[-2]) + 1)
        ref = rows + [r for r in extra if r not in rows]
        rng.shuffle(ref)
        return {'g': leaf(rows, cs, n, poly), 'ref': rows_json(ref), 'kind': 'near-twins'}
    if rng.random() < 0.12:
        # one exponent of g written twice, the copies differing beyond the 7th decimal: the constructor merges them
        k = rng.randrange(m)
        j = rng.randrange(n)
        dup = list(rows[k])
        dup[j] = dup[j] + rng.choice([F(2, 10 ** 9), F(-3, 10 ** 9), F(4, 10 ** 10)])
        extra_c = F(rng.choice([-2, 1, 3, 4]))
        raw_rows = rows + [dup]
        raw_cs = cs + [frac_str(extra_c)]
        order = list(range(len(raw_rows)))
        rng.shuffle(order)
        merged = list(cs)
        merged[k] = frac_str(F(cs[k]) + extra_c)
        return {'g': leaf(rows, merged, n, poly), 'graw': leaf([raw_rows[t] for t in order], [raw_cs[t] for t in order], n, poly),
                'ref': rows_json(ref), 'kind': 'merged-rows'}
    if allow_missing and rng.random() < 0.25 and m >= 2:
        ref.remove(rows[rng.randrange(m)])
        kind = 'missing'
    elif rng.random() < 0.3:
        # reference rows that equal g's exponents only up to noise far beyond the 7th decimal (a raw, unrounded alpha)
        ref = [list(r) for r in ref]
        for r in ref:
            if rng.random() < 0.5:
                j = rng.randrange(n)
                r[j] = F(float(r[j] + rng.choice([F(2, 10 ** 9), F(-1, 10 ** 9), F(4, 10 ** 9)])))
        kind = 'noisy'
    return {'g': leaf(rows, cs, n, poly), 'ref': rows_json(ref), 'kind': kind}


def gen_mra_cancel_case(rng):
    """s = s0 e^{a.x} + s1 e^{(a+d).x} with Variable coefficients, h = 1 - e^{d.x}: with all coefficients of s set to one the
    middle exponent a + d of s*h cancels, with symbolic coefficients it does not: it is absent from L, which must be an error"""
    n = rng.randint(1, 2)
    poly = rng.random() < 0.4
    a = [F(rng.randint(0, 2)) for _ in range(n)]
    d = [F(rng.randint(1, 2)) if j == 0 else F(rng.randint(0, 1)) for j in range(n)]
    srows = [a, [x + y for x, y in zip(a, d)]]
    hrows = [[F(0)] * n, d]
    mid = srows[1]
    need = [a, [x + 2 * y for x, y in zip(a, d)]]
    Lrows = need + [r for r in rand_rows(rng, rng.randint(0, 2), n, poly) if r not in need and r != mid]
    rng.shuffle(Lrows)
    s = leaf(srows, [{'off': '0', 'co': [[i, '1']]} for i in range(2)], n, poly, sym=True, purevar=0)
    L = leaf(Lrows, [{'off': '0', 'co': [[2 + i, '1']]} for i in range(len(Lrows))], n, poly, sym=True)
    out = {'sizes': [2, len(Lrows)], 's': s, 'h': leaf(hrows, ['1', '-1'], n, poly), 'L': L, 'kind': 'missing-by-cancellation'}
    if rng.random() < 0.5:
        out['values'] = [rng.choice([0, 0, 1, -2, 0.75, None]) for _ in range(2 + len(Lrows))]
    return out


def gen_mra_thirds_case(rng):
    """exponents that are multiples of 1/3: the constructor puts them on the 7-decimal grid (0.3333333, 0.6666667); L is what
    arithmetic on the constructed s and h produces (sums of grid values), plus extra rows"""
    n = rng.randint(1, 2)
    ms, mh = rng.randint(2, 3), 2

    def rows(m):
        seen, out = set(), []
        while len(out) < m:
            r = tuple(F(rng.randint(0, 4), 3) for _ in range(n))
            if r not in seen:
                seen.add(r)
                out.append(list(r))
        return out
    sraw, hraw = rows(ms), rows(mh)
    sg = [[st.round7(x) for x in r] for r in sraw]
    hg = [[st.round7(x) for x in r] for r in hraw]
    if len({tuple(r) for r in sg}) < ms or len({tuple(r) for r in hg}) < mh:
        return gen_mra_case(rng)
    need = []
    for si in sg:
        for hj in hg:
            r = [st.round7(a + b) for a, b in zip(si, hj)]
            if r not in need:
                need.append(r)
    Lrows = need + [r for r in rand_rows(rng, rng.randint(0, 2), n, False) if r not in need]
    rng.shuffle(Lrows)
    hc = [frac_str(F(rng.choice([-3, -1, 1, 2, 5]))) for _ in range(mh)]
    coefs = [{'off': '0', 'co': [[i, '1']]} for i in range(ms)]
    L = leaf(Lrows, [{'off': '0', 'co': [[ms + i, '1']]} for i in range(len(Lrows))], n, False, sym=True)
    return {'sizes': [ms, len(Lrows)], 's': leaf(sg, coefs, n, False, sym=True, purevar=0), 'h': leaf(hg, hc, n, False), 'L': L,
            'raw': {'s': leaf(sraw, coefs, n, False, sym=True, purevar=0), 'h': leaf(hraw, hc, n, False)}, 'kind': 'thirds'}


def gen_mra_tiny_case(rng):
    """numeric multiplier with one coefficient of size 1e-9 (not zero): the exponents its term contributes to s*h are part of the
    product; L lacks one of them, which must be reported"""
    n = rng.randint(1, 2)
    poly = rng.random() < 0.4
    srows = rand_rows(rng, 2, n, poly)
    hrows = rand_rows(rng, rng.randint(1, 2), n, poly)
    hc = [frac_str(F(rng.choice([-3, -1, 1, 2, 5]))) for _ in hrows]
    tiny = F(rng.choice([1, -2, 5]), 10 ** rng.choice([9, 10, 12]))
    s = leaf(srows, ['1', frac_str(tiny)], n, poly)
    big = [[a + b for a, b in zip(srows[0], hj)] for hj in hrows]
    small = [[a + b for a, b in zip(srows[1], hj)] for hj in hrows]
    only_small = [r for r in small if r not in big]
    need = big + [r for r in small if r not in big]
    Lrows = list(need)
    kind = 'tiny-contained'
    if only_small and rng.random() < 0.7:
        Lrows.remove(rng.choice(only_small))
        kind = 'tiny-missing'
    Lrows += [r for r in rand_rows(rng, rng.randint(0, 2), n, poly) if r not in need]
    rng.shuffle(Lrows)
    if not Lrows:
        return gen_mra_case(rng)
    L = leaf(Lrows, [{'off': '0', 'co': [[2 + i, '1']]} for i in range(len(Lrows))], n, poly, sym=True)
    return {'sizes': [2, len(Lrows)], 's': s, 'h': leaf(hrows, hc, n, poly), 'L': L, 'kind': kind}


def gen_mra_stripped_case(rng):
    """numeric L obtained by `without_zeros()` from L0, which carries explicit zero coefficients; s*h needs one of the stripped
    exponents (an error) or none of them"""
    n = rng.randint(1, 2)
    poly = rng.random() < 0.4
    ms, mh = rng.randint(1, 2), rng.randint(1, 2)
    srows = rand_rows(rng, ms, n, poly)
    hrows = rand_rows(rng, mh, n, poly)
    hc = [frac_str(F(rng.choice([-3, -1, 1, 2, 5]))) for _ in range(mh)]
    s = leaf(srows, [{'off': '0', 'co': [[i, '1']]} for i in range(ms)], n, poly, sym=True, purevar=0)
    need = []
    for si in srows:
        for hj in hrows:
            r = [a + b for a, b in zip(si, hj)]
            if r not in need:
                need.append(r)
    extra = [r for r in rand_rows(rng, rng.randint(1, 3), n, poly) if r not in need]
    rows0 = need + extra
    rng.shuffle(rows0)
    zero_at = set()
    kind = 'stripped-contained'
    if rng.random() < 0.6:
        zero_at.add(rows0.index(rng.choice(need)))
        kind = 'stripped-missing'
    for r in extra:
        if rng.random() < 0.5:
            zero_at.add(rows0.index(r))
    c0 = ['0' if i in zero_at else frac_str(F(rng.choice([-2, 1, 3, 5]))) for i in range(len(rows0))]
    keep = [i for i in range(len(rows0)) if i not in zero_at]
    if not keep:
        return gen_mra_case(rng)
    L0 = leaf(rows0, c0, n, poly)
    L = leaf([rows0[i] for i in keep], [c0[i] for i in keep], n, poly)
    return {'sizes': [ms, 1], 's': s, 'h': leaf(hrows, hc, n, poly), 'L': L, 'L0': L0, 'kind': kind}


def gen_mra_case(rng):
    r0 = rng.random()
    if r0 < 0.06:
        return gen_mra_stripped_case(rng)
    if r0 < 0.08:
        return gen_mra_cancel_case(rng)
    if r0 < 0.16:
        return gen_mra_thirds_case(rng)
    if r0 < 0.24:
        return gen_mra_tiny_case(rng)
    n = rng.randint(1, 3)
    poly = rng.random() < 0.4
    ms, mh = rng.randint(1, 3), rng.randint(1, 3)
    tenths = not poly and rng.random() < 0.4        # exponents k/10: sums of their floats are NOT the floats of their sums
    srows = rand_rows(rng, ms, n, poly, tenths)
    hrows = rand_rows(rng, mh, n, poly, tenths)
    if rng.random() < 0.25:
        # h constant: the trivial modulator of every ell = 0 relaxation
        mh, hrows = 1, [[F(0)] * n]
    hc = [frac_str(F(rng.choice([-3, -1, 1, 2, 5]))) for _ in range(mh)]
    if rng.random() < 0.15 and mh >= 2:
        hc[0] = '0'
    symbolic = rng.random() < 0.75
    sizes = [ms, 0]
    if symbolic:
        s = leaf(srows, [{'off': '0', 'co': [[i, '1']]} for i in range(ms)], n, poly, sym=True, purevar=0)
    else:
        s = leaf(srows, [frac_str(F(rng.choice([-2, 1, 3]))) for _ in range(ms)], n, poly)
    need = []
    for si in srows:
        for hj in hrows:
            r = [a + b for a, b in zip(si, hj)]
            if r not in need:
                need.append(r)
    extra = [r for r in rand_rows(rng, rng.randint(0, 3), n, poly, tenths) if r not in need]
    Lrows = need + extra
    rng.shuffle(Lrows)
    kind = 'contained'
    if rng.random() < 0.2 and len(need) >= 2:
        Lrows.remove(need[rng.randrange(len(need))])
        kind = 'missing'
    sizes[1] = len(Lrows)
    # L's coefficients: one fresh variable per row (as a Lagrangian's coefficients would be affine in the multipliers)
    L = leaf(Lrows, [{'off': frac_str(F(rng.randint(-1, 1))), 'co': [[ms + i, '1']]} for i in range(len(Lrows))], n, poly, sym=True)
    out = {'sizes': sizes, 's': s, 'h': leaf(hrows, hc, n, poly), 'L': L, 'kind': kind}
    if symbolic and rng.random() < 0.5:
        out['values'] = [rng.choice([0, 0, 1, -2, 0.75, None]) for _ in range(sum(sizes))]
    return out


def builder_triples(rng, count):
    """(s, h, L) exactly as sig_constrained_dual / poly_constrained_dual hand them to moment_reduction_array"""
    import sageopt as so
    from sageopt.relaxations import sage_sigs, sage_polys
    cases = []
    for _ in range(count):
        n = rng.randint(1, 2)
        poly = rng.random() < 0.4
        f = st.gen_leaf(rng, n, poly, allow_dups=False)
        g = st.gen_leaf(rng, n, poly, allow_dups=False)
        while f['k'] != 'sig':
            f = st.gen_leaf(rng, n, poly, allow_dups=False)
        while g['k'] != 'sig':
            g = st.gen_leaf(rng, n, poly, allow_dups=False)
        cases.append({'f': f, 'g': g, 'p': rng.randint(0, 1), 'poly': poly, 'n': n})
    return cases


def run(ctx):
    rng = ctx.rng
    ctx.lean = common.lean_check('C16')
    common.run_regressions(ctx, 'C16', lambda r: recheck(r))
    quick = ctx.quick()
    corpus = common.load_corpus('C16')
    N = 300 if quick else 3000
    rows_cases = [gen_rows_case(rng) for _ in range(N)]
    rcv_cases = [c for c in corpus if c.get('stream') == 'rcv'] + [gen_rcv_case(rng, True) for _ in range(N)]
    mra_cases = [c for c in corpus if c.get('stream') == 'mra'] + [gen_mra_case(rng) for _ in range(N)]
    for c in rcv_cases + mra_cases:
        ctx.count('kind:' + c.get('kind', 'corpus'))
    correspond(ctx, 'rows', rows_cases, impl_rows, lambda c: {'op': 'symcorr.rows', 'a1': c['a1'], 'a2': c['a2']},
               nontrivial=lambda c, o: isinstance(o, dict) and len(o.get('common', [])) > 0)
    r_rcv = correspond(ctx, 'rcv', rcv_cases, impl_rcv,
                       lambda c: {'op': 'symcorr.rcv', 'g': st.strip_types(c['g']), 'ref': c['ref']},
                       nontrivial=lambda c, o: len(c['ref']) >= 2)
    r_mra = correspond(ctx, 'mra', mra_cases, impl_mra,
                       lambda c: {'op': 'symcorr.mra', 's': st.strip_types(c['s']), 'h': st.strip_types(c['h']),
                                  'L': st.strip_types(c['L'])},
                       nontrivial=lambda c, o: len(c['L']['alpha']) >= 2)
    for c, io, mo in r_rcv:
        why = oracle_rcv(c, io)
        if why:
            ctx.violation('relative_coeff_vector: ' + why, {'stream': 'rcv', 'case': c, 'observed': io, 'model': mo})
    for c, io, mo in r_mra:
        why = oracle_mra(c, io)
        if why:
            ctx.violation('moment_reduction_array: ' + why, {'stream': 'mra', 'case': c, 'observed': io, 'model': mo})
    if (not ctx.lean.ok or ctx.disagreements) and not ctx.violations:
        common.broken_report(ctx, 'exact expansion of s*h found no failing input among %d cases' % ctx.evaluations)
    return ctx.finish(
        level='proof',
        rule='random (alpha1, alpha2) incl. rows perturbed beyond the 7th decimal and duplicate reference rows; '
             'relative_coeff_vector with permuted / extended / truncated reference rows; (s, h, L) triples with Variable or numeric '
             'multiplier coefficients, permuted L.alpha, L missing an exponent; non-trivial = at least one matching row / two '
             'reference rows; distinct = distinct canonical JSON',
        trusted=TRUSTED, assumptions=ASSUME)


def replay(obj):
    r = obj['replay']
    c = r['case']
    if r['stream'] == 'rcv':
        out = common.impl_call(impl_rcv, c)
        why = oracle_rcv(c, out)
    else:
        out = common.impl_call(impl_mra, c)
        why = oracle_mra(c, out)
    print('case:', common.canon_json(c))
    print('implementation returned:', common.canon_json(out))
    print('oracle:', why or 'ok')
    return 1 if why else 0


recheck = common.recheck_via_replay(replay)
