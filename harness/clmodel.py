"""
Serialisation of coniclifts objects (ScalarExpressions, atoms, constraints, Variables) into the JSON
the Lean compile model reads, canonical forms of compiled systems, and independent semantic
evaluators (mathematical definitions of atoms / cones) for the oracles.  Shared by C07, C11, C01, C02, C15.
"""
import math
from fractions import Fraction as F

import numpy as np

import conemath as cm
from common import frac_str

E = math.e


def fr(x):
    return frac_str(F(float(x)))


# ------------------------------------------------------------------------------------------------
# serialisation
# ------------------------------------------------------------------------------------------------

def ser_arg(arg):
    """arg: tuple ((ScalarVariable, coeff), ..., ('OFFSET', off))"""
    return {'co': [[int(v.id), fr(c)] for v, c in arg[:-1]], 'off': fr(arg[-1][1])}


def ser_ref(a):
    from sageopt.coniclifts.base import ScalarVariable
    if isinstance(a, ScalarVariable):
        return {'v': int(a.id)}
    return {'kind': a.__atom_text__(), 'args': [ser_arg(x) for x in a.args], 'epi': int(a.epigraph_variable.id),
            'epiname': getattr(a.epigraph_variable.parent, 'name', None)}


def ser_se(se):
    return {'terms': [[ser_ref(a), fr(c)] for a, c in se.atoms_to_coeffs.items()], 'off': fr(se.offset)}


def ser_con(c):
    from sageopt.coniclifts.constraints.elementwise import ElementwiseConstraint
    from sageopt.coniclifts.constraints.set_membership.product_cone import PrimalProductCone, DualProductCone
    from sageopt.coniclifts.constraints.set_membership.pow_cone import PowCone
    from sageopt.coniclifts.constraints.set_membership.psd_cone import PSD
    if isinstance(c, ElementwiseConstraint):
        return {'cls': 'elem', 'eq': c.operator == '==', 'rows': [ser_se(se) for se in c.expr.flat]}
    if isinstance(c, PrimalProductCone):
        return {'cls': 'primal', 'y': [ser_se(se) for se in c.y.flat], 'K': [[co.type, int(co.len)] for co in c.K]}
    if isinstance(c, DualProductCone):
        return {'cls': 'dual', 'y': [ser_se(se) for se in c.y.flat], 'K': [[co.type, int(co.len)] for co in c.K]}
    if isinstance(c, PowCone):
        return {'cls': 'pow', 'w': [ser_se(se) for se in c.w_low.flat], 'z': [ser_se(se) for se in c.z_low.flat],
                'weights': [fr(a) for a in c.alpha]}
    if isinstance(c, PSD):
        n = c.arg.shape[0]
        return {'cls': 'psd', 'arg': [[ser_se(c.arg[i, j]) for j in range(n)] for i in range(n)]}
    raise ValueError('unknown constraint class %s' % type(c))


def var_info(v):
    return {'name': v.name, 'ids': [int(i) for i in v.scalar_variable_ids], 'gen': int(v.generation),
            'shape': list(v.shape)}


def atoms_of(sercons):
    out = []
    for c in sercons:
        if c['cls'] == 'elem':
            for r in c['rows']:
                for ref, _ in r['terms']:
                    if 'kind' in ref:
                        out.append(ref)
    return out


def epi_vars(sercons):
    """candidate epigraph Variables (one scalar each) of all atoms present before compilation"""
    seen, out = set(), []
    for a in atoms_of(sercons):
        if a['epi'] not in seen:
            seen.add(a['epi'])
            out.append({'name': a['epiname'] or ('_epi_%d_' % a['epi']), 'ids': [a['epi']], 'gen': None, 'shape': []})
    return out


def strip_for_model(sercons):
    """drop keys the model does not read"""
    def ref(r):
        return {k: v for k, v in r.items() if k != 'epiname'}

    def row(r):
        return {'terms': [[ref(a), c] for a, c in r['terms']], 'off': r['off']}
    out = []
    for c in sercons:
        d = dict(c)
        for key in ('rows', 'y', 'w', 'z'):
            if key in d:
                d[key] = [row(r) for r in d[key]]
        if 'arg' in d:
            d['arg'] = [[row(r) for r in rr] for rr in d['arg']]
        d.pop('weights', None)
        out.append(d)
    return out


# ------------------------------------------------------------------------------------------------
# canonical compiled system
# ------------------------------------------------------------------------------------------------

def canon_system(A, b, K, svid2col, variable_map, erows_hint=None):
    """implementation output -> {'cols', 'A', 'b', 'K', 'vmap'}; rows that the model marks as e-scaled are
    divided by e here (erows_hint = list of bools from the model), entries then compared exactly when they are
    rationals with small denominators, else at 1e-13"""
    A = A.toarray() if hasattr(A, 'toarray') else np.asarray(A, dtype=float)
    n = A.shape[1]
    col2id = {}
    for k, v in svid2col.items():
        if v >= 0:
            col2id[int(v)] = int(k)
    cols = [col2id.get(j) for j in range(n)]
    return {'cols': cols, 'A': A.tolist(), 'b': np.asarray(b, dtype=float).tolist(),
            'K': [[co.type, int(co.len)] for co in K],
            'vmap': {name: np.asarray(idx).ravel().astype(int).tolist() for name, idx in variable_map.items()}}


def snap(x, scale=1.0):
    """float -> exact Fraction string if it is (after division by `scale`) a small dyadic rational, else repr"""
    v = x / scale
    if scale == 1.0 and v == v and abs(v) != float('inf'):
        ex = F(v)
        if ex.denominator <= 2 ** 40 and abs(ex.numerator) <= 2 ** 40:
            return frac_str(ex)            # the float IS this dyadic rational (also the tiny 2^-30 coefficients the generator plants)
    q = F(v).limit_denominator(2 ** 20)
    if abs(float(q) - v) <= 1e-12 * max(1.0, abs(v)):
        return frac_str(q)
    if v == v and abs(v) < 2.0 ** 20:
        # a dyadic rational with a tiny part (the 2^-30 coefficients the generator plants) that went through a multiplication and a
        # division by e: relative error ~1e-16, far below the 2^-41 spacing a generic float has from this grid
        q2 = F(round(v * 2 ** 40), 2 ** 40)
        if q2 != 0 and abs(float(q2) - v) <= 1e-14 * abs(v):
            return frac_str(q2)
    return repr(v)


def canon_impl(out, erows):
    """apply the model's e-row flags to the implementation output and snap floats"""
    A, b = out['A'], out['b']
    if len(erows) != len(A):
        erows = [False] * len(A)
    return {'cols': out['cols'], 'A': [[snap(v, E if e else 1.0) for v in row] for row, e in zip(A, erows)],
            'b': [snap(v, E if e else 1.0) for v, e in zip(b, erows)], 'K': out['K'],
            'vmap': {k: v for k, v in out['vmap'].items() if any(i >= 0 for i in v)}}


def canon_model(mo):
    return {'cols': mo['cols'], 'A': mo['A'], 'b': mo['b'], 'K': mo['K'],
            'vmap': {k: v for k, v in mo['vmap'].items() if any(i >= 0 for i in v)}}


# ------------------------------------------------------------------------------------------------
# independent semantics (mathematical definitions) -- floats with margins
# ------------------------------------------------------------------------------------------------

def arg_val(arg, sigma):
    return float(F(arg['off'])) + sum(float(F(c)) * sigma[v] for v, c in arg['co'])


def atom_val(a, sigma):
    vals = [arg_val(x, sigma) for x in a['args']]
    k = a['kind']
    if k == 'Abs':
        return abs(vals[0])
    if k == 'Pos':
        return max(vals[0], 0.0)
    if k == 'Exponential' and vals[0] > 700:
        return float('inf')
    if k == 'Exponential':
        return math.exp(vals[0])
    if k == 'RelEnt':
        x, y = vals
        if x > 0 and y > 0:
            return x * math.log(x / y)
        if x == 0 and y >= 0:
            return 0.0
        return math.inf
    if k == 'Vector2Norm':
        return math.sqrt(sum(v * v for v in vals))
    raise ValueError(k)


def row_val(r, sigma):
    """value of a serialised ScalarExpression at sigma (dict id -> float), atoms by definition"""
    s = float(F(r['off']))
    for ref, c in r['terms']:
        c = float(F(c))
        if c == 0:
            continue
        s += c * (sigma[ref['v']] if 'v' in ref else atom_val(ref, sigma))
    return s


def cone_member(tag, v, weights=None, margin=1e-7, scales=None):
    """True / False / None (too close to the boundary to call).  `scales`: per entry, the size of the terms that were added
    up to form it (an entry that is a difference of large numbers carries their rounding error)"""
    v = [float(x) for x in v]
    if any(math.isinf(x) or math.isnan(x) for x in v):
        return False
    sc = [1.0] * len(v) if scales is None else [max(1.0, float(x)) for x in scales]

    def sgn(d, scale=1.0):
        if abs(d) <= margin * max(1.0, scale):
            return None
        return d > 0
    if tag == '0':
        if all(x == 0 for x in v):
            return True
        return None if all(abs(x) <= margin * k for x, k in zip(v, sc)) else False
    if tag == '+':
        res = True
        for x, k in zip(v, sc):
            s = sgn(x, k)
            if s is False:
                return False
            if s is None and x != 0:
                res = None
        return res
    if tag == 'S':
        if not v:
            return True
        nrm = math.sqrt(sum(x * x for x in v[1:]))
        if v[0] == nrm:
            return True
        return sgn(v[0] - nrm, max(abs(v[0]), nrm))
    if tag == 'e':
        base = cm.in_exp(v, margin)
        if base is False and scales is not None:
            # entries formed by cancellation carry rounding errors of about 1e-15 x (size of the terms added up); e^{x/z} amplifies
            # them when z is tiny.  A rejection must survive every perturbation of that size.
            import itertools as _it
            d = [1e-13 * k for k in sc]
            for sg in _it.product((-1.0, 0.0, 1.0), repeat=3):
                w = [v[0] + sg[0] * d[0], v[1] + sg[1] * d[1], max(v[2] + sg[2] * d[2], 0.0) if v[2] >= 0 else v[2] + sg[2] * d[2]]
                if cm.in_exp(w, margin) is not False:
                    return None
        return base
    if tag == 'de':
        return cm.in_dexp(v, margin)
    if tag == 'fr':
        return True
    if tag == 'pow':
        w, z = v[:-1], v[-1]
        if any(x < -margin for x in w):
            return False
        if any(x < margin for x in w):
            return None if abs(z) > margin else (True if all(x >= 0 for x in w) and z == 0 else None)
        p = 1.0
        for x, a in zip(w, weights):
            p *= x ** float(F(a))
        return sgn(p - abs(z), max(p, abs(z)))
    if tag == 'P':
        n = int(round((math.sqrt(8 * len(v) + 1) - 1) / 2))
        M = np.zeros((n, n))
        M[np.triu_indices(n)] = v
        M = M + M.T - np.diag(np.diag(M))
        lam = float(np.min(np.linalg.eigvalsh(M)))
        return sgn(lam, float(np.max(np.abs(M))) if M.size else 1.0)
    raise ValueError(tag)


def dual_tag(t):
    return {'+': '+', 'S': 'S', 'P': 'P', 'e': 'de', '0': 'fr'}[t]


def combine(results):
    res = True
    for r in results:
        if r is False:
            return False
        if r is None:
            res = None
    return res


def con_holds(c, sigma, margin=1e-7):
    """does the constraint hold at sigma, by its mathematical definition?  True/False/None"""
    if c['cls'] == 'elem':
        vals = [row_val(r, sigma) for r in c['rows']]
        if c['eq']:
            return cone_member('0', vals, margin=margin)
        return cone_member('+', [-v for v in vals], margin=margin)
    if c['cls'] in ('primal', 'dual'):
        vals = [row_val(r, sigma) for r in c['y']]
        out, i = [], 0
        for t, l in c['K']:
            tag = t if c['cls'] == 'primal' else dual_tag(t)
            out.append(cone_member(tag, vals[i:i + l], margin=margin))
            i += l
        return combine(out)
    if c['cls'] == 'pow':
        vals = [row_val(r, sigma) for r in c['w'] + c['z']]
        return cone_member('pow', vals, weights=c['weights'], margin=margin)
    if c['cls'] == 'psd':
        n = len(c['arg'])
        vals = [row_val(c['arg'][i][j], sigma) for i in range(n) for j in range(i, n)]
        return cone_member('P', vals, margin=margin)
    raise ValueError(c['cls'])


def system_member(out, x, weights_by_block=None, margin=1e-7):
    """A x + b in K for an implementation output (float matrices)"""
    A = np.asarray(out['A'], dtype=float).reshape(len(out['b']), len(out['cols']))
    bvec = np.asarray(out['b'], dtype=float)
    xv = np.asarray(x, dtype=float)
    s = A @ xv + bvec if len(out['cols']) else bvec
    sizes = np.abs(A) @ np.abs(xv) + np.abs(bvec) if len(out['cols']) else np.abs(bvec)
    res, i = [], 0
    for bi, (t, l) in enumerate(out['K']):
        w = (weights_by_block or {}).get(bi)
        res.append(cone_member(t, s[i:i + l].tolist(), weights=w, margin=margin, scales=sizes[i:i + l].tolist()))
        i += l
    return combine(res)
