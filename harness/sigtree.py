"""
Expression trees over Signomials / Polynomials: generator, evaluation on the real classes,
canonical output, and an independent exact reference (coefficient dictionaries over `fractions`).
Shared by C12, C13, C14, C16.
"""
import itertools
from fractions import Fraction as F

import numpy as np

from common import frac_str

NUM_TYPES = ['int', 'float', 'np.int32', 'np.int64', 'np.float32', 'np.float64', 'np.longdouble']
INT_TYPES = ('int', 'np.int32', 'np.int64')


def np_type(name):
    return {'int': int, 'float': float, 'np.int32': np.int32, 'np.int64': np.int64, 'np.float32': np.float32,
            'np.float64': np.float64, 'np.longdouble': np.longdouble}[name]


def fr(x):
    return frac_str(F(float(x)))


def mat_json(alpha):
    return [[fr(v) for v in row] for row in np.asarray(alpha, dtype=float).tolist()]


# ------------------------------------------------------------------------------------------------
# building real objects from a tree
# ------------------------------------------------------------------------------------------------

def build(t):
    """Evaluate the tree on the real classes.  Raises whatever the implementation raises."""
    from sageopt.symbolic.signomials import Signomial
    from sageopt.symbolic.polynomials import Polynomial
    k = t['k']
    if k == 'num':
        T = np_type(t.get('t', 'float'))
        q = F(t['v'])
        if t.get('t', 'float') in INT_TYPES:
            assert q.denominator == 1
            return T(int(q))
        return T(float(q))
    if k == 'sig':
        cls = Polynomial if t['poly'] else Signomial
        alpha = np.array([[float(F(v)) for v in r] for r in t['alpha']], dtype=float).reshape(len(t['c']), t['n'])
        if t.get('negzero'):
            alpha[alpha == 0] = -0.0
        for i in t.get('negzero_rows', []):
            # this row only: it then differs from an equal row in the SIGN of its zeros, nothing else
            alpha[i][alpha[i] == 0] = -0.0
        c = np.array([float(F(v)) for v in t['c']], dtype=float)
        return cls(alpha, c)
    if k == 'dict':
        cls = Polynomial if t['poly'] else Signomial
        d = {}
        for key, v in t['items']:
            d[tuple(float(F(x)) for x in key)] = float(F(v))
        return cls.from_dict(d)
    if k == 'neg':
        return -build(t['l'])
    if k == 'wz':
        return build(t['l']).without_zeros()
    if k == 'pow':
        T = np_type(t.get('t', 'float'))
        q = F(t['p'])
        p = T(int(q)) if t.get('t', 'float') in INT_TYPES else T(float(q))
        return build(t['l']) ** p
    l, r = build(t['l']), build(t['r'])
    if k == 'add':
        return l + r
    if k == 'sub':
        return l - r
    if k == 'mul':
        return l * r
    if k == 'div':
        return l / r
    raise ValueError(k)


def out_json(res):
    """canonical representation-level output of the implementation"""
    from sageopt.symbolic.signomials import Signomial
    from sageopt.symbolic.polynomials import Polynomial
    if isinstance(res, Signomial):
        c = np.asarray(res.c)
        return {'poly': isinstance(res, Polynomial), 'n': int(res.n), 'alpha': mat_json(res.alpha),
                'c': [fr(v) for v in c.astype(np.longdouble).tolist()]}
    if isinstance(res, (int, float, np.number)):
        return {'num': fr(res)}
    return {'other': type(res).__name__}


def alpha_c_json(res):
    """alpha_c as a sorted list of [key, value]"""
    items = []
    for k, v in res.alpha_c.items():
        items.append([[fr(x) for x in k], fr(v)])
    items.sort()
    return items


# ------------------------------------------------------------------------------------------------
# exact reference (function level): dict exponent-tuple -> Fraction, no zero entries
# ------------------------------------------------------------------------------------------------

class RefError(Exception):
    """the operation is not defined mathematically / not supported by the documented API"""


def ref_clean(d):
    return {k: v for k, v in d.items() if v != 0}


def exact_root(q, k):
    if q < 0:
        return None
    for part in (q.numerator, q.denominator):
        r = round(part ** (1.0 / k))
        if not any((r + e) ** k == part for e in (-1, 0, 1) if r + e >= 0):
            return None

    def root(a):
        r = round(a ** (1.0 / k))
        for e in (-1, 0, 1):
            if r + e >= 0 and (r + e) ** k == a:
                return r + e
    return F(root(q.numerator), root(q.denominator))


def ref_pow_scalar(v, p):
    if p.denominator == 1:
        if p >= 0:
            return v ** int(p)
        if v == 0:
            raise RefError('zero division')
        return 1 / (v ** int(-p))
    r = exact_root(v, p.denominator)
    if r is None:
        raise RefError('inexact')
    return ref_pow_scalar(r, F(p.numerator))


def ref_eval(t):
    """returns ('num', Fraction) or ('fun', n, dict, poly)"""
    k = t['k']
    if k == 'num':
        return ('num', F(t['v']))
    if k == 'sig':
        d = {}
        for row, c in zip(t['alpha'], t['c']):
            key = tuple(F(v) for v in row)
            d[key] = d.get(key, F(0)) + F(c)
        return ('fun', t['n'], ref_clean(d), t['poly'])
    if k == 'dict':
        d = {}
        for key, v in t['items']:
            kk = tuple(round7(F(x)) for x in key)
            d[kk] = d.get(kk, F(0)) + F(v)
        return ('fun', t['n'], ref_clean(d), t['poly'])
    if k in ('neg', 'wz', 'pow'):
        a = ref_eval(t['l'])
        if a[0] == 'num':
            raise RefError('numeric')
        _, n, d, poly = a
        if k == 'neg':
            return ('fun', n, {kk: -v for kk, v in d.items()}, poly)
        if k == 'wz':
            return a
        p = F(t['p'])
        if p.denominator == 1 and p >= 0:
            res = {tuple([F(0)] * n): F(1)}
            for _ in range(int(p)):
                res = ref_mul(res, d)
            return ('fun', n, ref_clean(res), poly)
        if len(d) != 1:
            raise RefError('not a monomial')
        (key, v), = d.items()
        if v < 0 and p.denominator != 1:
            raise RefError('negative base')
        nk = tuple(p * x for x in key)
        if poly and any(x < 0 or x.denominator != 1 for x in nk):
            raise RefError('not a polynomial')
        return ('fun', n, {nk: ref_pow_scalar(v, p)}, poly)
    a, b = ref_eval(t['l']), ref_eval(t['r'])
    if a[0] == 'num' and b[0] == 'num':
        raise RefError('numeric')
    if a[0] == 'fun' and b[0] == 'fun':
        if a[1] != b[1]:
            raise RefError('different n')
        if a[3] != b[3]:
            raise RefError('mixed kinds')
    n = a[1] if a[0] == 'fun' else b[1]
    poly = a[3] if a[0] == 'fun' else b[3]
    zero = tuple([F(0)] * n)
    da = a[2] if a[0] == 'fun' else ref_clean({zero: a[1]})
    db = b[2] if b[0] == 'fun' else ref_clean({zero: b[1]})
    if k == 'add':
        res = dict(da)
        for kk, v in db.items():
            res[kk] = res.get(kk, F(0)) + v
    elif k == 'sub':
        res = dict(da)
        for kk, v in db.items():
            res[kk] = res.get(kk, F(0)) - v
    elif k == 'mul':
        res = ref_mul(da, db)
    else:
        if len(db) != 1:
            raise RefError('divisor is not a monomial')
        if poly and b[0] == 'fun':
            raise RefError('polynomial division by a polynomial is not offered')
        (key, v), = db.items()
        inv = {tuple(-x for x in key): 1 / v}
        res = ref_mul(da, inv)
        if poly and any(x < 0 for kk in res for x in kk):
            raise RefError('not a polynomial')
    return ('fun', n, ref_clean(res), poly)


def ref_mul(da, db):
    res = {}
    for (k1, v1), (k2, v2) in itertools.product(da.items(), db.items()):
        kk = tuple(x + y for x, y in zip(k1, k2))
        res[kk] = res.get(kk, F(0)) + v1 * v2
    return res


def round7(q):
    s = q * 10 ** 7
    f = s.numerator // s.denominator
    r = s - f
    if r < F(1, 2):
        k = f
    elif r > F(1, 2):
        k = f + 1
    else:
        k = f if f % 2 == 0 else f + 1
    return F(k, 10 ** 7)


# ------------------------------------------------------------------------------------------------
# generator
# ------------------------------------------------------------------------------------------------

def gen_leaf(rng, n, poly, allow_dups=True, tiny=True):
    m = rng.randint(1, 4)
    rows = []
    for _ in range(m):
        if poly:
            rows.append([F(rng.randint(0, 3)) for _ in range(n)])
        else:
            rows.append([F(rng.randint(-4, 6), 2) for _ in range(n)])
    if allow_dups and m >= 2 and rng.random() < 0.25:
        rows[rng.randrange(m)] = list(rows[rng.randrange(m)])
    if rng.random() < 0.2:
        rows[rng.randrange(m)] = [F(0)] * n
    c = [F(rng.choice([-3, -2, -1, 1, 2, 3, 4, 0]) if rng.random() < 0.85 else rng.choice([F(1, 2), F(-5, 4)]))
         for _ in range(m)]
    if tiny and rng.random() < 0.1:
        # a tiny but nonzero coefficient (below every tolerance used anywhere in the library): never "identically zero"
        c[rng.randrange(m)] = rng.choice([F(1, 2 ** 30), F(-3, 2 ** 31)])
    if rng.random() < 0.12 and not (allow_dups and len({tuple(r) for r in rows}) < m):
        return {'k': 'dict', 'poly': poly, 'n': n, 'items': [[[frac_str(x) for x in r], frac_str(v)]
                                                              for r, v in {tuple(r): v for r, v in zip(rows, c)}.items()]}
    t = {'k': 'sig', 'poly': poly, 'n': n, 'alpha': [[frac_str(x) for x in r] for r in rows], 'c': [frac_str(v) for v in c]}
    if rng.random() < 0.1:
        t['negzero'] = True
    return t


def gen_num(rng, nonzero=False, pow2=False):
    ty = rng.choice(NUM_TYPES)
    if pow2:
        v = F(rng.choice([1, 2, 4, -2, -1]))
        if ty not in INT_TYPES and rng.random() < 0.4:
            v = rng.choice([F(1, 2), F(-1, 4)])
    else:
        v = F(rng.randint(-3, 3))
        if ty not in INT_TYPES and rng.random() < 0.3:
            v = F(rng.randint(-6, 6), 4)
    if nonzero and v == 0:
        v = F(2)
    return {'k': 'num', 'v': frac_str(v), 't': ty}


def gen_monomial(rng, n, poly):
    row = [F(rng.randint(0, 2)) if poly else F(rng.randint(-3, 4), 2) for _ in range(n)]
    c = F(rng.choice([1, 4, 1, 2, -2, F(1, 4), 16, -4]))
    return {'k': 'sig', 'poly': poly, 'n': n, 'alpha': [[frac_str(x) for x in row]], 'c': [frac_str(c)]}


def gen_tree(rng, depth, n, poly):
    if depth == 0 or rng.random() < 0.15:
        return gen_leaf(rng, n, poly)
    op = rng.choice(['add', 'add', 'sub', 'sub', 'mul', 'mul', 'div', 'pow', 'neg', 'wz'])
    if op in ('neg', 'wz'):
        return {'k': op, 'l': gen_tree(rng, depth - 1, n, poly)}
    if op == 'pow':
        r = rng.random()
        if r < 0.6:
            ty = rng.choice(NUM_TYPES)
            return {'k': 'pow', 'l': gen_tree(rng, depth - 1, n, poly), 'p': str(rng.randint(0, 3)), 't': ty}
        base = gen_monomial(rng, n, poly) if r < 0.95 else gen_tree(rng, depth - 1, n, poly)
        ty = rng.choice(['float', 'np.float64', 'np.float32', 'np.longdouble'])
        p = rng.choice([F(1, 2), F(-1), F(-2), F(3, 2), F(-1, 2), F(2)])
        if p.denominator == 1 and rng.random() < 0.5:
            ty = rng.choice(NUM_TYPES)
        return {'k': 'pow', 'l': base, 'p': frac_str(p), 't': ty}
    if op == 'div':
        r = rng.random()
        if r < 0.5:
            return {'k': 'div', 'l': gen_tree(rng, depth - 1, n, poly), 'r': gen_num(rng, nonzero=True, pow2=True)}
        if r < 0.85:
            return {'k': 'div', 'l': gen_tree(rng, depth - 1, n, poly), 'r': gen_monomial(rng, n, poly)}
        if r < 0.93:
            return {'k': 'div', 'l': gen_num(rng), 'r': gen_monomial(rng, n, poly)}
        return {'k': 'div', 'l': gen_tree(rng, depth - 1, n, poly), 'r': gen_tree(rng, depth - 1, n, poly)}
    r = rng.random()
    if r < 0.2:
        return {'k': op, 'l': gen_tree(rng, depth - 1, n, poly), 'r': gen_num(rng)}
    if r < 0.35:
        return {'k': op, 'l': gen_num(rng), 'r': gen_tree(rng, depth - 1, n, poly)}
    l = gen_tree(rng, depth - 1, n, poly)
    if r < 0.5 and op in ('sub', 'add'):
        # force cancellations: f - f, f + (-f)
        return {'k': 'sub', 'l': l, 'r': l} if op == 'sub' else {'k': 'add', 'l': l, 'r': {'k': 'neg', 'l': l}}
    return {'k': op, 'l': l, 'r': gen_tree(rng, depth - 1, n, poly)}


def is_pow2(k):
    return k > 0 and (k & (k - 1)) == 0


def exact_in_float(t):
    """True when every subtree's exact value has dyadic coefficients (small) and exponents that are multiples of 1/128,
    so that the implementation's float64 arithmetic and its 7-decimal rounding are exact on this tree."""
    for x in ('l', 'r'):
        if isinstance(t.get(x), dict) and not exact_in_float(t[x]):
            return False
    if t['k'] == 'pow' and F(t['p']).denominator not in (1, 2):
        return False
    try:
        r = ref_eval(t)
    except RefError as e:
        return str(e) != 'inexact'
    if r[0] == 'num':
        return is_pow2(r[1].denominator) and abs(r[1]) < 2 ** 40
    for key, v in r[2].items():
        if not is_pow2(v.denominator) or v.denominator > 2 ** 30 or abs(v.numerator) > 2 ** 40:
            return False
        if any((not is_pow2(e.denominator)) or e.denominator > 128 or abs(e) > 2 ** 20 for e in key):
            return False
    return True


def tree_size(t):
    return 1 + sum(tree_size(t[x]) for x in ('l', 'r') if isinstance(t.get(x), dict))


def tree_ops(t, acc=None):
    acc = acc if acc is not None else []
    acc.append(t['k'])
    for x in ('l', 'r'):
        if isinstance(t.get(x), dict):
            tree_ops(t[x], acc)
    return acc


def strip_types(t):
    """the model is type-agnostic: drop the numeric type annotations"""
    if not isinstance(t, dict):
        return t
    return {k: (strip_types(v) if isinstance(v, dict) else v) for k, v in t.items() if k not in ('t', 'negzero', 'negzero_rows')}


# ------------------------------------------------------------------------------------------------
# symbolic coefficients (coniclifts Expressions): C13, C16, C04
# ------------------------------------------------------------------------------------------------

class SymEnv:
    """Variables of one case.  `sizes` = list of Variable sizes; scalar variables are numbered in
    declaration order (vid = position in the concatenation)."""
    _ctr = [0]

    def __init__(self, sizes, values=None):
        import sageopt.coniclifts as cl
        self.vars = []
        self.scalars = []      # vid -> ScalarExpression-valued 0-d access
        self.id2vid = {}
        for k, sz in enumerate(sizes):
            SymEnv._ctr[0] += 1
            v = cl.Variable(shape=(sz,), name='vv%d_%d' % (SymEnv._ctr[0], k))
            self.vars.append(v)
            for i in range(sz):
                self.id2vid[v.scalar_variable_ids[i]] = len(self.scalars)
                self.scalars.append(v[i])
        if values is not None:
            self.set_values(values)

    def set_values(self, values):
        pos = 0
        for v in self.vars:
            v.value = np.array([float(x) if x is not None else np.nan for x in values[pos:pos + v.size]])
            pos += v.size

    def lin(self, spec):
        """spec: rational string/int, or {'off': q, 'co': [[vid, q], ...]} -> ScalarExpression or float"""
        import sageopt.coniclifts as cl
        if not isinstance(spec, dict):
            return float(F(spec))
        e = cl.Expression([float(F(spec['off']))])[0]
        for vid, q in spec['co']:
            e = e + float(F(q)) * self.scalars[vid]
        return e

    def lin_json(self, se):
        """canonical {'off', 'co'} of a ScalarExpression / number (zero coefficients dropped, sorted by vid)"""
        from sageopt.coniclifts.base import ScalarExpression, ScalarVariable
        if isinstance(se, np.ndarray) and se.dtype == object:
            se = se.item()
        if not isinstance(se, ScalarExpression):
            return {'off': fr(se), 'co': []}
        acc = {}
        for a, c in se.atoms_to_coeffs.items():
            if not isinstance(a, ScalarVariable):
                raise AssertionError('nonlinear atom in a coefficient')
            vid = self.id2vid[a.id]
            acc[vid] = acc.get(vid, F(0)) + F(float(c))
        return {'off': fr(se.offset), 'co': [[k, frac_str(v)] for k, v in sorted(acc.items()) if v != 0]}


def build_sym(t, env):
    """like `build`, for trees with symbolic leaves"""
    import sageopt.coniclifts as cl
    from sageopt.symbolic.signomials import Signomial
    from sageopt.symbolic.polynomials import Polynomial
    k = t['k']
    if k in ('num', 'sig', 'dict'):
        return build(t)
    if k == 'sx':
        return env.lin(t['v'])
    if k == 'sigL':
        cls = Polynomial if t['poly'] else Signomial
        alpha = np.array([[float(F(v)) for v in r] for r in t['alpha']], dtype=float).reshape(len(t['c']), t['n'])
        if t.get('purevar') is not None:
            c = env.vars[t['purevar']]          # a Variable object itself as coefficient vector
        else:
            c = cl.Expression([env.lin(s) for s in t['c']])
        return cls(alpha, c)
    if k == 'neg':
        return -build_sym(t['l'], env)
    if k == 'wz':
        return build_sym(t['l'], env).without_zeros()
    if k == 'sum':
        fs = [build_sym(x, env) for x in t['fs']]
        return type(fs[0]).sum(fs) if hasattr(fs[0], 'alpha') else Signomial.sum(fs)
    l, r = build_sym(t['l'], env), build_sym(t['r'], env)
    if k == 'add':
        return l + r
    if k == 'sub':
        return l - r
    if k == 'mul':
        return l * r
    raise ValueError(k)


def out_json_sym(res, env):
    from sageopt.symbolic.signomials import Signomial
    from sageopt.symbolic.polynomials import Polynomial
    if isinstance(res, Signomial):
        c = res.c
        cs = [env.lin_json(ci) for ci in (c.flat if hasattr(c, 'flat') else c)]
        return {'poly': isinstance(res, Polynomial), 'n': int(res.n), 'alpha': mat_json(res.alpha), 'c': cs}
    return {'sc': env.lin_json(res)}


def lin_spec(rng, nvars, p_const=0.3):
    """random affine form over vids < nvars"""
    if nvars == 0 or rng.random() < p_const:
        return {'off': frac_str(F(rng.randint(-3, 3))), 'co': []}
    k = rng.randint(1, min(3, nvars))
    vids = sorted(rng.sample(range(nvars), k))
    co = [[v, frac_str(F(rng.choice([-2, -1, 1, 2, 3]), rng.choice([1, 1, 2])))] for v in vids]
    if rng.random() < 0.1:
        co[rng.randrange(len(co))][1] = frac_str(rng.choice([F(1, 2 ** 28), F(-1, 2 ** 29)]))     # tiny, not zero
    return {'off': frac_str(F(rng.choice([0, 0, 1, -2]))), 'co': co}
