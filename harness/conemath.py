"""
Independent cone arithmetic for the oracles (exact `fractions` where possible; the exponential cone
is decided in floating point with an explicit margin and returns None when too close to call).
"""
import math
from fractions import Fraction as F


def in_zero(v):
    return all(x == 0 for x in v)


def in_pos(v):
    return all(x >= 0 for x in v)


def in_soc(v):
    """(t, x): ||x|| <= t, exact."""
    if len(v) == 0:
        return True
    t = v[0]
    return t >= 0 and t * t >= sum(x * x for x in v[1:])


def in_exp(v, margin=1e-9):
    """coniclifts / ECOS: (x, y, z) with y >= z exp(x/z), z > 0, or z = 0, x <= 0, y >= 0.
    True / False / None (within `margin` of the boundary: too close to call)"""
    x, y, z = [float(t) for t in v]
    sc = max(1.0, abs(x), abs(y), abs(z))
    tiny = 1e-13 * sc
    if z < -tiny:
        return False if z < -margin * sc else None
    if z <= tiny:
        if x > margin * sc or y < -margin * sc:
            return False
        if z == 0 and x <= 0 and y >= 0:
            return True
        return None
    try:
        r = z * math.exp(x / z)
    except OverflowError:
        return False
    d = y - r
    if abs(d) <= margin * max(1.0, abs(y), abs(r)):
        return None
    return d > 0


def in_dexp(v, margin=1e-9):
    """dual of the cone above: (u, v, w) with u < 0 and -u exp(w/u) <= e v, or u = 0, v >= 0, w >= 0."""
    u, vv, w = [float(t) for t in v]
    sc = max(1.0, abs(u), abs(vv), abs(w))
    tiny = 1e-13 * sc
    if u > tiny:
        return False if u > margin * sc else None
    if u >= -tiny:
        if vv < -margin * sc or w < -margin * sc:
            return False
        if u == 0 and vv >= 0 and w >= 0:
            return True
        return None
    try:
        l = -u * math.exp(w / u)
    except OverflowError:
        return False
    d = math.e * vv - l
    if abs(d) <= margin * max(1.0, abs(l), abs(math.e * vv)):
        return None
    return d > 0


def mosek_pexp(v, margin=1e-9):
    """MOSEK primal exponential cone: x1 >= x2 exp(x3/x2), x2 > 0 (closure: x2 = 0, x3 <= 0, x1 >= 0)."""
    x1, x2, x3 = v
    return in_exp([x3, x1, x2], margin)


def mosek_dexp(v, margin=1e-9):
    """MOSEK dual exponential cone: s1 >= -s3 e^{-1} exp(s2/s3), s3 < 0 (closure: s3 = 0, s1, s2 >= 0)."""
    s1, s2, s3 = v
    return in_dexp([s3, s1, s2], margin)


MEMBER = {'0': in_zero, '+': in_pos, 'S': in_soc, 'e': in_exp, 'de': in_dexp, 'fr': lambda v: True}


def in_product(K, s):
    """K: list of (tag, len); s: list of numbers.  True/False/None."""
    i = 0
    res = True
    for tag, ln in K:
        blk = s[i:i + ln]
        i += ln
        r = MEMBER[tag](blk)
        if r is False:
            return False
        if r is None:
            res = None
    return res


def matvec(A, x):
    return [sum((a * b for a, b in zip(r, x)), F(0)) for r in A]


def dot(a, b):
    return sum((x * y for x, y in zip(a, b)), F(0))


# sample points of each cone: inside / boundary / outside (exact rationals)
SOC_PTS = {
    1: [[F(1)], [F(0)], [F(-1)]],
    2: [[F(2), F(1)], [F(1), F(-1)], [F(1), F(2)], [F(0), F(0)]],
    3: [[F(5), F(3), F(4)], [F(6), F(3), F(-4)], [F(4), F(3), F(4)], [F(1), F(1), F(0)], [F(1), F(1), F(1)]],
    4: [[F(3), F(1), F(2), F(2)], [F(2), F(1), F(2), F(2)], [F(4), F(1), F(-2), F(2)]],
}
EXP_PTS = [[F(0), F(2), F(1)], [F(0), F(1, 2), F(1)], [F(-1), F(0), F(0)], [F(1), F(3), F(1)],
           [F(1), F(2), F(1)], [F(-2), F(1), F(2)], [F(1), F(1), F(0)], [F(0), F(1), F(-1)]]
DEXP_PTS = [[F(-1), F(1), F(0)], [F(-1), F(1, 8), F(0)], [F(0), F(1), F(1)], [F(0), F(-1), F(1)],
            [F(-2), F(1), F(1)], [F(1), F(1), F(1)], [F(-1), F(1), F(-3)], [F(-1), F(1, 100), F(2)]]


def soc_points(n):
    if n in SOC_PTS:
        return SOC_PTS[n]
    base = [F(1)] * (n - 1)
    return [[F(n)] + base, [F(1)] + base, [F(0)] * n]


def cone_points(tag, ln, rng):
    """a few vectors of length ln, some inside and some outside cone `tag`"""
    if tag == '0':
        return [[F(0)] * ln, [F(0)] * (ln - 1) + [F(1)]]
    if tag == '+':
        return [[F(rng.randint(0, 3)) for _ in range(ln)], [F(0)] * ln, [F(1)] * (ln - 1) + [F(-1)]]
    if tag == 'S':
        return soc_points(ln)
    if tag == 'e':
        return EXP_PTS
    if tag == 'de':
        return DEXP_PTS
    if tag == 'fr':
        return [[F(rng.randint(-3, 3)) for _ in range(ln)]]
    raise ValueError(tag)
