#!/venv/bin/python
"""
Single entry point of the sageopt verification checks.

    /venv/bin/python harness/vcheck.py C18 --tier quick
    /venv/bin/python harness/vcheck.py C18 --replay replays/C18-0-0.json

exit 0: property held on everything explored; exit 1: a VIOLATION line was printed;
exit 2: infrastructure problem / timeout (never a verdict).
"""
import argparse
import importlib
import json
import os
import sys
import traceback
import warnings

HERE = os.path.dirname(os.path.abspath(__file__))
sys.path.insert(0, HERE)
os.environ.setdefault('PYTHONDONTWRITEBYTECODE', '1')
sys.dont_write_bytecode = True
warnings.filterwarnings('ignore')

import common  # noqa: E402


def main():
    ap = argparse.ArgumentParser()
    ap.add_argument('prop')
    ap.add_argument('--tier', default=os.environ.get('VERIF_TIER', 'quick'), choices=['quick', 'thorough'])
    ap.add_argument('--seed', type=int, default=int(os.environ.get('VERIF_SEED', '0') or 0))
    ap.add_argument('--replay', default=None)
    args = ap.parse_args()
    prop = args.prop.upper()
    mod = importlib.import_module('props.%s' % prop.lower())
    if args.replay:
        obj = json.load(open(args.replay))
        rc = mod.replay(obj)
        sys.exit(rc)
    ctx = common.Ctx(prop, args.tier, args.seed)
    try:
        rc = mod.run(ctx)
    except common.DriverError as e:
        print('INFRA-ERROR %s: %s' % (prop, e))
        traceback.print_exc()
        sys.exit(2)
    except Exception as e:  # noqa: BLE001
        print('INFRA-ERROR %s: %s' % (prop, e))
        traceback.print_exc()
        sys.exit(2)
    sys.exit(rc)


if __name__ == '__main__':
    main()
