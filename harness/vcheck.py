#!/venv/bin/python
"""
Single entry point of the sageopt verification checks.

    /venv/bin/python harness/vcheck.py C18 --tier quick
    /venv/bin/python harness/vcheck.py C18 --replay replays/C18-0-0.json

exit 0: property held on everything explored; exit 1: a VIOLATION line was printed;
exit 2: infrastructure problem / timeout (never a verdict).
"""
import argparse
import importlib
import json
import os
import sys
import traceback
import warnings

HERE = os.path.dirname(os.path.abspath(__file__))
sys.path.insert(0, HERE)
os.environ.setdefault('PYTHONDONTWRITEBYTECODE', '1')
sys.dont_write_bytecode = True
warnings.filterwarnings('ignore')

import common  # noqa: E402

# the implementation is imported from the working tree under check (SAGEOPT_REPO, default /repo), never from an installed copy
if common.REPO not in sys.path:
    sys.path.insert(0, common.REPO)


def main():
    ap = argparse.ArgumentParser()
    ap.add_argument('prop')
    ap.add_argument('--tier', default=os.environ.get('VERIF_TIER', 'quick'), choices=['quick', 'thorough'])
    ap.add_argument('--seed', type=int, default=int(os.environ.get('VERIF_SEED', '0') or 0))
    ap.add_argument('--replay', default=None)
    args = ap.parse_args()
    prop = args.prop.upper()
    mod = importlib.import_module('props.%s' % prop.lower())
    if args.replay:
        obj = json.load(open(args.replay))
        r = obj.get('replay') if isinstance(obj, dict) else None
        if hasattr(mod, 'recheck') and isinstance(r, dict) and not r.get('no_failing_input_found'):
            # execute the stored input again on the current tree: exit 1 when it (still) fails, 0 when it does not
            print('what was reported:', obj.get('what'))
            try:
                why = mod.recheck(r)
            except Exception:  # noqa: BLE001
                # the stored input could not be executed at all: neither "fails" nor "does not fail"
                traceback.print_exc()
                sys.exit(2)
            print('on the current tree:', why if why else 'the stored input does not fail')
            sys.exit(1 if why else 0)
        rc = mod.replay(obj)
        sys.exit(rc)
    os.environ['VERIF_TIER_ACTIVE'] = args.tier
    if os.environ.get('VERIF_NO_FORK') != '1':
        # The implementation's solver (ECOS) occasionally dies with a segmentation fault, not reproducibly.  The run therefore
        # happens in a child process; a child killed by a signal is started again (same seed), up to three times.
        last_sig = None
        for attempt in range(3):
            sys.stdout.flush()
            pid = os.fork()
            if pid == 0:
                os.environ['VERIF_NO_FORK'] = '1'
                try:
                    run_once(prop, mod, args)
                finally:
                    sys.stdout.flush()
                    os._exit(3)
            _, status = os.waitpid(pid, 0)
            if os.WIFEXITED(status):
                sys.exit(os.WEXITSTATUS(status))
            last_sig = os.WTERMSIG(status)
            print('CHILD-CRASH %s: the check process was killed by signal %s (attempt %d); starting it again' % (prop, last_sig, attempt + 1))
        # three crashes in a row: the implementation (or the solver on the data it is now given) can no longer be run
        ctx = common.Ctx(prop, args.tier, args.seed)
        ctx.violations.append((
            'proof obligation / correspondence no longer checks; the check process was killed by signal %s three times in a row '
            'while running the implementation' % last_sig,
            {'no_failing_input_found': True, 'no_longer_checks': ['the implementation / its solver crashes the process (signal %s)' % last_sig],
             'first_disagreements': []}))
        sys.exit(ctx.finish(level='proof', rule='(run aborted: the check process crashed three times)', trusted=['harness/vcheck.py'],
                            assumptions=[]))
    run_once(prop, mod, args)


def run_once(prop, mod, args):
    ctx = common.Ctx(prop, args.tier, args.seed)
    try:
        rc = mod.run(ctx)
    except Exception as e:  # noqa: BLE001
        # The harness could not carry the comparison through: on the unchanged tree this never happens (a check that does it
        # there is broken); on a changed tree it means the implementation's output no longer has the shape the
        # correspondence can interpret, i.e. the correspondence no longer checks.  Reported as such, with the traceback as replay.
        tb = traceback.format_exc()
        print('HARNESS-EXCEPTION %s: %s' % (prop, e))
        print(tb)
        if isinstance(e, (MemoryError, KeyboardInterrupt)):
            sys.exit(2)
        if not ctx.violations:
            ctx.violations.append((
                'proof obligation / correspondence no longer checks; the comparison of model and implementation could not be '
                'completed (%s: %s)' % (type(e).__name__, str(e)[:200]),
                {'no_failing_input_found': True, 'no_longer_checks': ['correspondence harness raised %s' % type(e).__name__],
                 'traceback': tb[-3000:], 'first_disagreements': ctx.disagreements[:3]}))
        rc = ctx.finish(level='proof', rule='(run aborted by an exception in the correspondence harness)',
                        trusted=['harness/vcheck.py'], assumptions=[])
    sys.stdout.flush()
    os._exit(rc if isinstance(rc, int) else 1)


if __name__ == '__main__':
    main()
