"""
SAGE constraints: instance generator, construction of the real PrimalSageCone / DualSageCone objects,
serialisation of their state (cover helper, ids of the auxiliary Variables) into the Lean model's input,
and helpers to audit solved instances.  Shared by C01, C02, C19, C06.
"""
import itertools
from fractions import Fraction as F

import numpy as np

import clmodel as clm
import common
from common import frac_str

SETTING_KEYS = ['heuristic_reduction', 'presolve_trivial_age_cones', 'sum_age_force_equality', 'compact_dual', 'kernel_basis']
DEFAULTS = {'heuristic_reduction': True, 'presolve_trivial_age_cones': False, 'sum_age_force_equality': False,
            'compact_dual': True, 'kernel_basis': False}
_ctr = [0]


def fr(x):
    return frac_str(F(float(x)))


def all_settings():
    for bits in itertools.product((False, True), repeat=5):
        yield dict(zip(SETTING_KEYS, bits))


def rand_settings(rng):
    return {k: rng.random() < 0.5 for k in SETTING_KEYS}


# ------------------------------------------------------------------------------------------------
# instance descriptions (JSON-able)
# ------------------------------------------------------------------------------------------------

def gen_alpha(rng, m, n, style=None):
    style = style or rng.choice(['int', 'int', 'half', 'nonneg_zero', 'nonneg_zero', 'mixed_zero'])
    rows, seen = [], set()
    attempts = 0
    while len(rows) < m:
        attempts += 1
        if attempts > 200:
            break                      # not enough distinct rows of this style (small n): fewer terms
        if style == 'half':
            r = tuple(F(rng.randint(-3, 4), 2) for _ in range(n))
        elif style == 'nonneg_zero':
            r = tuple(F(rng.randint(0, 3)) for _ in range(n))
        else:
            r = tuple(F(rng.randint(-2, 3)) for _ in range(n))
        if r not in seen:
            seen.add(r)
            rows.append(list(r))
    if style == 'mixed_zero' and n >= 2 and len(rows) >= 3:
        # mixed-sign exponents WITH a zero row and an orthogonal pair: the sign-based cover reduction must not fire here
        a, b_ = rng.randint(1, 3), rng.randint(1, 3)
        r1 = [F(a), F(b_)] + [F(0)] * (n - 2)
        r2 = [F(b_), F(-a)] + [F(0)] * (n - 2)
        rows[0], rows[1], rows[2] = [F(0)] * n, r1, r2
        if len(rows) >= 4:
            rows[3] = [F(2 * a - b_), F(2 * b_ + a)] + [F(0)] * (n - 2)      # r1 = (r2 + r3) / 2: a circuit through r1
        uniq = []
        for r in rows:
            if r not in uniq:
                uniq.append(r)
        rows = uniq
    if style == 'nonneg_zero' and not any(all(x == 0 for x in r) for r in rows):
        rows[rng.randrange(m)] = [F(0)] * n
        # keep rows distinct
        uniq = []
        for r in rows:
            if r not in uniq:
                uniq.append(r)
        rows = uniq
    return [[frac_str(x) for x in r] for r in rows]


def gen_domain(rng, n):
    """None or {'A','b','K','N'} with K over {+,0,S,e}; lifted columns when N > n"""
    r = rng.random()
    if r < 0.35:
        return None
    N = n + (rng.randint(1, 2) if rng.random() < 0.35 else 0)
    K = []
    for _ in range(rng.randint(1, 3)):
        t = rng.choice(['+', '+', '0', 'S', 'e'])
        K.append([t, 3 if t == 'e' else (rng.randint(2, 3) if t == 'S' else rng.randint(1, 2))])
    rows = sum(l for _, l in K)
    A = [[frac_str(F(rng.choice([0, 0, 1, -1, 2, F(1, 2)]))) for _ in range(N)] for _ in range(rows)]
    b = [frac_str(F(rng.choice([0, 1, 2, 3, -1, F(1, 2), F(3, 2)]))) for _ in range(rows)]
    d = {'A': A, 'b': b, 'K': K, 'N': N}
    if all(F(x).denominator == 1 for r in A for x in r) and rng.random() < 0.5:
        d['intA'] = True       # the user hands over an INTEGER matrix (next to a float b)
    return d


def box_domain(n, lo=-1, hi=1):
    """{x : lo <= x <= hi} as (A, b, K)"""
    A, b = [], []
    for i in range(n):
        A.append([frac_str(F(1 if j == i else 0)) for j in range(n)])
        b.append(frac_str(F(-lo)))
        A.append([frac_str(F(-1 if j == i else 0)) for j in range(n)])
        b.append(frac_str(F(hi)))
    return {'A': A, 'b': b, 'K': [['+', 2 * n]], 'N': n}


def gen_c_spec(rng, m, nuser):
    """per coefficient: {'off': q, 'co': [[k, q], ...]} over user scalar variables 0..nuser-1"""
    out = []
    for _ in range(m):
        r = rng.random()
        if r < 0.25 and nuser:
            k = rng.randrange(nuser)
            out.append({'off': frac_str(F(rng.choice([0, 0, 1, -2]))), 'co': [[k, frac_str(F(rng.choice([1, -1, 2])))]]})
        elif r < 0.45:
            out.append({'off': frac_str(F(rng.choice([-1, -2, -3]))), 'co': []})
        elif r < 0.9:
            out.append({'off': frac_str(F(rng.choice([1, 2, 3, F(1, 2)]))), 'co': []})
        else:
            out.append({'off': '0', 'co': []})
    return out


def gen_covers(rng, m, mode):
    if mode == 'auto':
        return None
    covers = {}
    for i in range(m):
        if mode == 'full':
            covers[i] = [j != i for j in range(m)]
        else:
            covers[i] = [(j != i and rng.random() < 0.6) or (j == i and rng.random() < 0.1) for j in range(m)]
    return covers


def gen_instance(rng, primal=True, m=None, n=None, alpha_style=None):
    n = n or rng.randint(1, 3)
    m = m or rng.choice([1, 2, 3, 3, 4, 4, 5, 6])
    alpha = gen_alpha(rng, m, n, alpha_style)
    m = len(alpha)
    nuser = rng.randint(0, 2)
    inst = {'primal': primal, 'n': n, 'alpha': alpha, 'X': gen_domain(rng, n), 'nuser': nuser,
            'cover_mode': rng.choice(['auto', 'auto', 'auto', 'full', 'user'])}
    inst['covers'] = gen_covers(rng, m, inst['cover_mode'])
    if primal:
        inst['c'] = gen_c_spec(rng, m, nuser)
    else:
        # v: a Variable of length m, or an affine image C w + d of a Variable w
        r = rng.random()
        if r < 0.5:
            inst['v'] = None
        elif r < 0.75 or nuser == 0:
            # v_j = a_j * w_j + d_j: an affine image with constant part that can reach every moment vector
            inst['nuser'] = m
            inst['v'] = [{'off': frac_str(F(rng.choice([0, 1, -1, 2]))), 'co': [[j, frac_str(F(rng.choice([1, 2, -1, F(1, 2)])))]]}
                         for j in range(m)]
            inst['vdiag'] = True
        else:
            # v_j = sum over a few w_k (always w_j among them) + d_j, the atoms of an entry listed in RANDOM order (the scalar expressions
            # are summed up in this order, so they are not inserted by ascending index) with pairwise different coefficients;
            # C has full row rank for most draws, so that every moment vector is the image of some w (audited)
            inst['nuser'] = max(nuser, m + rng.randint(0, 1))
            inst['v'] = []
            for jj in range(m):
                others = rng.sample([k for k in range(inst['nuser']) if k != jj], min(inst['nuser'] - 1, rng.randint(0, 2)))
                ks = [jj] + others
                rng.shuffle(ks)
                cvs = rng.sample([1, 2, -1, 3, F(1, 2)], len(ks))
                inst['v'].append({'off': frac_str(F(rng.choice([0, 0, 1]))), 'co': [[k, frac_str(F(cv))] for k, cv in zip(ks, cvs)]})
        inst['c'] = gen_c_spec(rng, m, 0) if rng.random() < 0.5 else None
    return inst


# ------------------------------------------------------------------------------------------------
# building the real objects
# ------------------------------------------------------------------------------------------------

class Built:
    pass


class SolverCrash(Exception):
    pass


def build(inst, settings, presolve_log=None):
    """construct the real constraint; returns Built with .con, .user (Variable or None), .X.
    With presolve_trivial_age_cones the constructor itself runs ECOS on small problems; ECOS can crash the process on degenerate
    data (not reproducibly: a probe of the same construction in a forked child can survive where the parent dies), so every solve
    the presolve makes runs in a forked child that hands back the status and the value, which is all the presolve reads;
    SolverCrash when that child dies."""
    return _build(inst, settings, presolve_log)


def _build(inst, settings, presolve_log=None):
    import sageopt.coniclifts as cl
    from sageopt.symbolic.signomials import SigDomain
    from sageopt.coniclifts.cones import Cone
    import sageopt.coniclifts.constraints.set_membership.sage_cones as sc
    _ctr[0] += 1
    tag = str(_ctr[0])
    b = Built()
    alpha = np.array([[float(F(x)) for x in r] for r in inst['alpha']], dtype=float)
    m, n = alpha.shape
    b.user = cl.Variable(shape=(inst['nuser'],), name='w' + tag) if inst['nuser'] else None
    X = None
    if inst['X'] is not None:
        d = inst['X']
        A = np.array([[float(F(x)) for x in r] for r in d['A']], dtype=float).reshape(len(d['b']), d['N'])
        if d.get('intA'):
            A = A.astype(int)
        bb = np.array([float(F(x)) for x in d['b']], dtype=float)
        X = SigDomain(n, AbK=(A, bb, [Cone(t, l) for t, l in d['K']]), check_feas=False)
    b.X = X

    def lin(spec):
        e = cl.Expression([float(F(spec['off']))])[0]
        for k, q in spec['co']:
            e = e + float(F(q)) * b.user[k]
        return e
    kwargs = {'settings': dict(settings)}
    if inst['covers'] is not None:
        kwargs['covers'] = {int(i): np.array(cov, dtype=bool) for i, cov in inst['covers'].items()}
    # record the answers of the optimisation-based presolve
    log = []
    orig_o, orig_c = sc.ExpCoverHelper._presolve_trivial_ord_age, sc.ExpCoverHelper._presolve_trivial_cond_age

    def wrap(fn):
        def inner(self, i, covers, *a, **k):
            import common
            orig_solve = sc.Problem.solve

            def safe_solve(prob, *sa, **sk):
                kind, res = common.forked(lambda: (orig_solve(prob, *sa, **sk), (prob.status, prob.value))[1], timeout=120)
                if kind in ('crash', 'timeout'):
                    raise SolverCrash('the presolve\'s solver %s' % kind)
                if kind == 'exception':
                    raise RuntimeError(res)
                prob.status, prob.value = res
                return res
            sc.Problem.solve = safe_solve
            try:
                fn(self, i, covers, *a, **k)
            finally:
                sc.Problem.solve = orig_solve
            log.append(not bool(np.any(covers[i])))
        return inner
    sc.ExpCoverHelper._presolve_trivial_ord_age = wrap(orig_o)
    sc.ExpCoverHelper._presolve_trivial_cond_age = wrap(orig_c)
    try:
        if inst['primal']:
            c = cl.Expression([lin(s) for s in inst['c']])
            b.con = cl.PrimalSageCone(c, alpha, X, 'P' + tag, **kwargs)
        else:
            if inst['v'] is None:
                b.vvar = cl.Variable(shape=(m,), name='v' + tag)
                v = b.vvar
            else:
                v = cl.Expression([lin(s) for s in inst['v']])
            if inst['c'] is not None:
                kwargs['c'] = np.array([float(F(s['off'])) for s in inst['c']])
            b.con = cl.DualSageCone(v, alpha, X, 'D' + tag, **kwargs)
    finally:
        sc.ExpCoverHelper._presolve_trivial_ord_age = orig_o
        sc.ExpCoverHelper._presolve_trivial_cond_age = orig_c
    b.answers = log
    return b


def ser_affe(se):
    """ScalarExpression -> {'co': [[id, q]], 'off': q} (zero-free, ids as they are)"""
    from sageopt.coniclifts.base import ScalarExpression
    if not isinstance(se, ScalarExpression):
        se = se.item() if hasattr(se, 'item') else se
    co = [[int(a.id), fr(c)] for a, c in se.atoms_to_coeffs.items() if c != 0]
    return {'co': co, 'off': fr(se.offset)}


def ech_json(ech):
    return {'U': [int(i) for i in ech.U_I], 'N': [int(i) for i in ech.N_I], 'P': [int(i) for i in ech.P_I],
            'covers': [[int(i), [1 if x else 0 for x in ech.covers[i]]] for i in ech.U_I]}


def model_line(inst, settings, b):
    """the Lean model's input for the constraint that was built"""
    from sageopt.coniclifts.base import ScalarVariable
    con = b.con
    line = {'op': 'sage.primal' if inst['primal'] else 'sage.dual', 'n': inst['n'], 'alpha': inst['alpha'],
            'settings': settings, 'dummy': int(ScalarVariable.curr_variable_count()) - 1, 'answers': [1 if a else 0 for a in b.answers]}
    if inst['X'] is not None:
        line['X'] = inst['X']
    if inst['covers'] is not None:
        line['user_covers'] = [[int(i), [1 if x else 0 for x in cov]] for i, cov in inst['covers'].items()]
    if inst['primal']:
        line['c'] = [ser_affe(se) for se in con.c.flat]
        ids = []
        for i in con.ech.U_I:
            d = {'i': int(i), 'nu': [], 'basis': [], 'cvar': [], 'epi': [], 'eta': []}
            if i in con._nus:
                if settings['kernel_basis'] and con.X is None:
                    d['nu'] = [int(x) for x in con._pre_nus[i].scalar_variable_ids]
                    d['basis'] = [[fr(x) for x in row] for row in np.asarray(con._nu_bases[i], dtype=float).tolist()]
                else:
                    d['nu'] = [int(x) for x in con._nus[i].scalar_variable_ids]
                d['epi'] = [int(x) for x in con._relent_epi_vars[i].scalar_variable_ids]
                if i in con._eta_vars:
                    d['eta'] = [int(x) for x in con._eta_vars[i].scalar_variable_ids]
            if i in con._c_vars:
                d['cvar'] = [int(x) for x in con._c_vars[i].scalar_variable_ids]
            ids.append(d)
        line['ids'] = ids
    else:
        line['v'] = [ser_affe(se) for se in con.v.flat]
        if con.c is not None:
            line['c'] = [ser_affe(se) for se in con.c.flat]
        ids = []
        if con._m > 1:
            for i in con.ech.U_I:
                d = {'i': int(i), 'mu': [int(x) for x in con._lifted_mu_vars[i].scalar_variable_ids], 'epi': []}
                if i in con._relent_epi_vars:
                    d['epi'] = [int(x) for x in con._relent_epi_vars[i].scalar_variable_ids]
                ids.append(d)
        line['ids'] = ids
    return line


def impl_compile(b):
    import sageopt.coniclifts as cl
    A, bb, K, vmap, variables, svid2col = cl.compile_constrained_system([b.con])
    out = clm.canon_system(A, bb, K, svid2col, vmap)
    out['ech'] = ech_json(b.con.ech)
    return out


def systems_equal(io, mo, rtol=1e-11):
    """cols, K, ech exact; A and b numerically (rows the model flags as e-scaled divided by e first): kernel-basis
    entries are arbitrary floats, so string snapping is not appropriate here"""
    if io['cols'] != mo['cols'] or io['K'] != mo['K']:
        return False
    if common.canon_json(io['ech']) != common.canon_json(mo['ech']):
        return False
    er = mo.get('eRows', [])
    A = np.asarray(io['A'], dtype=float).reshape(len(io['b']), len(io['cols']))
    bb = np.asarray(io['b'], dtype=float)
    if len(er) != len(bb) or len(mo['A']) != len(bb):
        return False
    for r in range(len(bb)):
        sc = np.e if er[r] else 1.0
        mrow = [float(F(x)) for x in mo['A'][r]]
        for a, q in zip((A[r] / sc).tolist(), mrow):
            if abs(a - q) > rtol * max(1.0, abs(q)):
                return False
        if abs(bb[r] / sc - float(F(mo['b'][r]))) > rtol * max(1.0, abs(float(F(mo['b'][r])))):
            return False
    return True


def canon_pair(io, mo):
    a = clm.canon_impl(io, mo.get('eRows', []))
    a.pop('vmap', None)
    a['ech'] = io['ech']
    m = clm.canon_model(mo)
    m.pop('vmap', None)
    m['ech'] = mo['ech']
    return a, m


# ------------------------------------------------------------------------------------------------
# numerics for audits
# ------------------------------------------------------------------------------------------------

def sig_eval(alpha, c, x):
    a = np.array([[float(F(v)) for v in r] for r in alpha], dtype=float)
    return float(np.dot(np.asarray(c, dtype=float), np.exp(a @ np.asarray(x, dtype=float))))


def domain_points(dom, n, rng, count=40, lifted=False):
    """points of X = {x : exists aux, A [x, aux] + b in K} found by rejection sampling on small rational grids
    (only for domains without lifted columns); returns list of float vectors"""
    pts = []
    if dom is None:
        return [[rng.randint(-4, 4) / 2.0 for _ in range(n)] for _ in range(count)]
    if dom['N'] != n and not lifted:
        return []
    N = dom['N']
    A = np.array([[float(F(v)) for v in r] for r in dom['A']], dtype=float).reshape(len(dom['b']), N)
    bb = np.array([float(F(v)) for v in dom['b']], dtype=float)
    for _ in range(count * 30):
        x = np.array([rng.randint(-8, 8) / 4.0 for _ in range(N)])
        s = A @ x + bb
        ok, i = True, 0
        for t, l in dom['K']:
            r = clm.cone_member(t, s[i:i + l].tolist(), margin=1e-9)
            i += l
            if r is not True:
                ok = False
                break
        if ok:
            pts.append(x.tolist())
            if len(pts) >= count:
                break
    return pts
