"""
Recording stand-in for the MOSEK Python API (C10 only; never placed in /repo, never left in
sys.modules outside the C10 stream).  It records what `Mosek._primal_solve_via_data` and
`Mosek._dual_solve_via_data` tell the solver; `optimize` does nothing.
"""


class _Enum:
    def __init__(self, prefix, names):
        for n in names:
            setattr(self, n, '%s.%s' % (prefix, n))


boundkey = _Enum('boundkey', ['fr', 'up', 'fx', 'lo', 'ra'])
conetype = _Enum('conetype', ['quad', 'pexp', 'dexp', 'rquad', 'ppow', 'dpow', 'zero'])
objsense = _Enum('objsense', ['minimize', 'maximize'])
variabletype = _Enum('variabletype', ['type_int', 'type_cont'])
streamtype = _Enum('streamtype', ['msg', 'log'])
soltype = _Enum('soltype', ['itr', 'itg', 'bas'])
solsta = _Enum('solsta', ['optimal', 'integer_optimal', 'dual_infeas_cer', 'prim_infeas_cer', 'unknown'])
iparam = _Enum('iparam', ['num_threads', 'log_presolve', 'intpnt_scaling'])
dparam = _Enum('dparam', ['intpnt_co_tol_near_rel', 'intpnt_tol_path', 'intpnt_tol_step_size'])
sparam = _Enum('sparam', [])
scalingtype = _Enum('scalingtype', ['none'])


class Task:
    def __init__(self):
        self.nvars = 0
        self.ncons = 0
        self.varbounds = {}
        self.conbounds = {}
        self.cones = []
        self.aij = {}
        self.c = {}
        self.sense = None
        self.optimized = False

    def appendvars(self, n):
        for j in range(self.nvars, self.nvars + n):
            self.varbounds[j] = (boundkey.fx, 0.0, 0.0)  # MOSEK default: fixed at zero
        self.nvars += n

    def appendcons(self, m):
        for i in range(self.ncons, self.ncons + m):
            self.conbounds[i] = (boundkey.fr, 0.0, 0.0)
        self.ncons += m

    def putvarboundlist(self, idx, keys, lo, up):
        for j, k, l, u in zip(idx, keys, lo, up):
            self.varbounds[int(j)] = (k, float(l), float(u))

    def putconboundlist(self, idx, keys, lo, up):
        for i, k, l, u in zip(idx, keys, lo, up):
            self.conbounds[int(i)] = (k, float(l), float(u))

    def putvartypelist(self, idx, types):
        pass

    def appendcone(self, ct, par, members):
        self.cones.append((ct, [int(i) for i in members]))

    def appendconesseq(self, cts, pars, dims, first):
        j = int(first)
        for ct, d in zip(cts, dims):
            self.cones.append((ct, list(range(j, j + int(d)))))
            j += int(d)

    def putaijlist(self, rows, cols, vals):
        for r, c, v in zip(rows, cols, vals):
            self.aij[(int(r), int(c))] = float(v)

    def putclist(self, idx, vals):
        for j, v in zip(idx, vals):
            self.c[int(j)] = float(v)

    def putobjsense(self, s):
        self.sense = s

    def optimize(self):
        self.optimized = True

    def putintparam(self, *a):
        pass

    def putdouparam(self, *a):
        pass

    def solutionsummary(self, *a):
        pass

    def set_Stream(self, *a):
        pass


class Env:
    def Task(self, a=0, b=0):
        return Task()

    def set_Stream(self, *a):
        pass
