"""
Shared machinery of the sageopt verification harness (see /verif/DESIGN.md section 2).

Every property check is `vcheck.py Cxx --tier quick|thorough`.  One run
  1. regenerates `lean/SageoptModel/Generated/*.lean` from /repo (translate.py) and builds the
     property's Lean module; audits axioms and forbidden tokens;
  2. runs the correspondence streams (real implementation in-process vs the Lean driver);
  3. if an obligation or the correspondence is broken, searches for a concrete failing input on
     the implementation with the property's independent oracle;
  4. writes evidence/<Cxx>.json and prints VIOLATION / KNOWN-FINDING lines.
"""
import fractions
import hashlib
import json
import os
import random
import re
import subprocess
import sys
import time
import traceback

VERIF = os.path.dirname(os.path.dirname(os.path.abspath(__file__)))
LEAN_DIR = os.path.join(VERIF, 'lean')
REPO = os.environ.get('SAGEOPT_REPO', '/repo')
ALLOWED_AXIOMS = {'propext', 'Classical.choice', 'Quot.sound'}
FORBIDDEN = re.compile(r'\bsorry\b|\badmit\b|^\s*axiom\s|native_decide|bv_decide|implemented_by|\bunsafe\s|maxHeartbeats\s+0\b',
                       re.M)

os.environ.setdefault('PYTHONDONTWRITEBYTECODE', '1')
sys.dont_write_bytecode = True


# ------------------------------------------------------------------------------------------------
# small helpers
# ------------------------------------------------------------------------------------------------

def frac_str(q):
    q = fractions.Fraction(q)
    return str(q.numerator) if q.denominator == 1 else '%d/%d' % (q.numerator, q.denominator)


def parse_frac(s):
    if isinstance(s, (int,)):
        return fractions.Fraction(s)
    return fractions.Fraction(s)


def canon_json(obj):
    return json.dumps(obj, sort_keys=True, separators=(',', ':'))


def digest(obj):
    return hashlib.sha1(canon_json(obj).encode()).hexdigest()[:16]


def strip_lean_comments(src):
    # remove /- ... -/ (nested) and -- ... comments
    out = []
    i, depth, n = 0, 0, len(src)
    while i < n:
        if src.startswith('/-', i):
            depth += 1
            i += 2
        elif depth > 0 and src.startswith('-/', i):
            depth -= 1
            i += 2
        elif depth > 0:
            if src[i] == '\n':
                out.append('\n')
            i += 1
        elif src.startswith('--', i):
            while i < n and src[i] != '\n':
                i += 1
        else:
            out.append(src[i])
            i += 1
    return ''.join(out)


# ------------------------------------------------------------------------------------------------
# Lean side
# ------------------------------------------------------------------------------------------------

def run_cmd(cmd, cwd=None, timeout=3600, input_text=None):
    t0 = time.time()
    p = subprocess.run(cmd, cwd=cwd, input=input_text, capture_output=True, text=True, timeout=timeout)
    return p.returncode, p.stdout, p.stderr, time.time() - t0


def prop_modules(prop):
    """A property's theorem files: Props/<prop>.lean and Props/<prop><Suffix>.lean (e.g. C12Gen.lean)."""
    d = os.path.join(LEAN_DIR, 'SageoptModel', 'Props')
    out = []
    for fn in sorted(os.listdir(d)):
        m = re.match(r'^(%s[A-Za-z]*)\.lean$' % prop, fn)
        if m:
            out.append('SageoptModel.Props.%s' % m.group(1))
    return out


def lean_module_files(prop):
    """Lean files in the dependency cone of the property's theorem files inside this project (transitively)."""
    seen, todo = [], list(prop_modules(prop))
    while todo:
        m = todo.pop()
        path = os.path.join(LEAN_DIR, *m.split('.')) + '.lean'
        if m in seen or not os.path.exists(path):
            continue
        seen.append(m)
        for line in open(path):
            mm = re.match(r'\s*import\s+(SageoptModel\.[\w.]+)', line)
            if mm:
                todo.append(mm.group(1))
    return seen


def theorem_names(prop):
    """All `theorem` declarations of the property's theorem files, fully qualified."""
    names = []
    for mod in prop_modules(prop):
        path = os.path.join(LEAN_DIR, *mod.split('.')) + '.lean'
        src = strip_lean_comments(open(path).read())
        ns = []
        for line in src.split('\n'):
            m = re.match(r'\s*namespace\s+(\S+)', line)
            if m:
                ns.append(m.group(1))
                continue
            m = re.match(r'\s*end\s+(\S+)', line)
            if m and ns and ns[-1] == m.group(1):
                ns.pop()
                continue
            m = re.match(r'\s*(?:@\[[^\]]*\]\s*)?(?:protected\s+)?theorem\s+([^\s:({\[]+)', line)
            if m:
                names.append('.'.join(ns + [m.group(1)]))
    return names


class LeanResult:
    def __init__(self):
        self.ok = True
        self.obligations = 0
        self.discharged = 0
        self.failed = []          # names / descriptions of what no longer checks
        self.axioms = {}
        self.log = ''
        self.modules = []
        self.wall = 0.0


def lean_check(prop, regenerate=True):
    """Regenerate, build, audit.  Never raises for a *failing* proof: reports it in the result."""
    res = LeanResult()
    t0 = time.time()
    if regenerate:
        import translate
        translate.regenerate()
    mods = prop_modules(prop)
    mod = ' '.join(mods)
    rc, out, err, _ = run_cmd(['lake', 'build'] + mods + ['SageoptModel.Drv.All'], cwd=LEAN_DIR)
    res.log = (out + err)[-6000:]
    res.modules = lean_module_files(prop)
    names = theorem_names(prop)
    res.obligations = len(names)
    if rc != 0:
        res.ok = False
        # which declarations fail?  collect the error lines
        errs = re.findall(r'error: ([^\n]*)', out + err)
        res.failed = ['lake build %s failed: %s' % (mod, '; '.join(errs[:6]))]
        res.wall = time.time() - t0
        return res
    # forbidden tokens in every project file the property depends on
    for m in res.modules:
        path = os.path.join(LEAN_DIR, *m.split('.')) + '.lean'
        src = strip_lean_comments(open(path).read())
        hit = FORBIDDEN.search(src)
        if hit:
            res.ok = False
            res.failed.append('forbidden token %r in %s' % (hit.group(0).strip(), m))
    # axiom audit
    audit_dir = os.path.join(LEAN_DIR, '.lake', 'audit')
    os.makedirs(audit_dir, exist_ok=True)
    audit = os.path.join(audit_dir, 'Audit%s.lean' % prop)
    with open(audit, 'w') as f:
        for m in mods:
            f.write('import %s\n' % m)
        for n in names:
            f.write('#print axioms %s\n' % n)
    rc, out, err, _ = run_cmd(['lake', 'env', 'lean', audit], cwd=LEAN_DIR)
    txt = out + err
    flat = re.sub(r'\s+', ' ', txt)
    for n in names:
        m = re.search(r"'%s' depends on axioms: \[([^\]]*)\]" % re.escape(n), flat)
        if m:
            ax = {a.strip() for a in m.group(1).split(',') if a.strip()}
        elif re.search(r"'%s' does not depend on any axioms" % re.escape(n), flat):
            ax = set()
        else:
            res.ok = False
            res.failed.append('theorem %s: no axiom report (%s)' % (n, txt[-300:].replace('\n', ' ')))
            continue
        res.axioms[n] = sorted(ax)
        if ax <= ALLOWED_AXIOMS:
            res.discharged += 1
        else:
            res.ok = False
            res.failed.append('theorem %s depends on %s' % (n, sorted(ax - ALLOWED_AXIOMS)))
    if rc != 0 and res.ok:
        res.ok = False
        res.failed.append('axiom audit failed: ' + txt[-400:])
    res.leanchecker = None
    if os.environ.get('VERIF_TIER_ACTIVE') == 'thorough' and res.ok and os.environ.get('VERIF_SKIP_LEANCHECKER') != '1':
        # thorough tier: the toolchain's independent re-checker replays every compiled module of the dependency cone
        ok, tail, wall = leanchecker(prop)
        res.leanchecker = {'ok': ok, 'wall_s': round(wall, 1), 'modules': len(lean_module_files(prop))}
        if not ok:
            res.ok = False
            res.failed.append('leanchecker rejected a compiled module: ' + tail[-300:])
    res.wall = time.time() - t0
    return res


def leanchecker(prop):
    mods = lean_module_files(prop)
    rc, out, err, wall = run_cmd(['lake', 'env', 'leanchecker'] + mods, cwd=LEAN_DIR, timeout=3000)
    return rc == 0, (out + err)[-800:], wall


def run_driver(lines, timeout=3000):
    """Send JSON-able objects through the Lean model driver; returns the list of decoded replies."""
    if not lines:
        return []
    text = '\n'.join(canon_json(l) for l in lines) + '\n'
    rc, out, err, _ = run_cmd(['lake', 'env', 'lean', '--run', 'Driver.lean'], cwd=LEAN_DIR,
                              input_text=text, timeout=timeout)
    outs = [l for l in out.split('\n') if l.strip()]
    if rc != 0 or len(outs) != len(lines):
        raise DriverError('driver rc=%s, %d replies for %d lines; stderr: %s'
                          % (rc, len(outs), len(lines), err[-1500:]))
    return [json.loads(l) for l in outs]


class DriverError(Exception):
    pass


# ------------------------------------------------------------------------------------------------
# known findings
# ------------------------------------------------------------------------------------------------

def load_known_findings(prop):
    path = os.path.join(VERIF, 'known_findings.json')
    if not os.path.exists(path):
        return []
    data = json.load(open(path))
    return [e for e in data.get('findings', []) if e.get('property') == prop]


# ------------------------------------------------------------------------------------------------
# run context
# ------------------------------------------------------------------------------------------------

class Ctx:
    def __init__(self, prop, tier, seed):
        self.prop = prop
        self.tier = tier
        self.seed = seed
        self.rng = random.Random((seed * 1000003) ^ int(hashlib.sha1(prop.encode()).hexdigest()[:8], 16))
        self.t0 = time.time()
        self.evaluations = 0
        self.nontrivial = set()
        self.samples = []
        self.hist = {}
        self.violations = []        # (description, replay-object)
        self.known_hits = []        # (entry, description)
        self.inconclusive = {}
        self.traces_validated = 0
        self.disagreements = []     # correspondence disagreements (stream, case, impl, model)
        self.notes = []
        self.lean = None
        self.exhaustive = False
        self.extra = {}
        self.known = load_known_findings(prop)
        self.budget_s = float(os.environ.get('VERIF_BUDGET_S', '0') or 0)

    # -- bookkeeping ---------------------------------------------------------------------------
    def quick(self):
        return self.tier == 'quick'

    def count(self, key, k=1):
        self.hist[key] = self.hist.get(key, 0) + k

    def incon(self, key, k=1):
        self.inconclusive[key] = self.inconclusive.get(key, 0) + k

    def case(self, case, nontrivial=True, sample_cap=6):
        """Register one explored case (a JSON-able object)."""
        self.evaluations += 1
        if nontrivial:
            self.nontrivial.add(digest(case))
        if len(self.samples) < sample_cap:
            self.samples.append(case)

    def elapsed(self):
        return time.time() - self.t0

    # -- verdicts ------------------------------------------------------------------------------
    def match_known(self, tags):
        """A failure is attributed to a known finding only through an explicit tag computed by the
        property's own same-cause predicate (DESIGN 2.2)."""
        for e in self.known:
            if e.get('status') == 'known' and e.get('id') in tags:
                return e
        return None

    def violation(self, what, replay, tags=()):
        e = self.match_known(set(tags))
        if e is not None:
            if not any(k[0]['id'] == e['id'] for k in self.known_hits):
                self.known_hits.append((e, what))
            return
        self.violations.append((what, replay))

    def disagreement(self, stream, case, impl, model):
        self.disagreements.append({'stream': stream, 'case': case, 'impl': impl, 'model': model})

    # -- finishing -----------------------------------------------------------------------------
    def finish(self, level='proof', rule='', trusted=None, assumptions=None, checker_cmd=None):
        os.makedirs(os.path.join(VERIF, 'evidence'), exist_ok=True)
        os.makedirs(os.path.join(VERIF, 'replays'), exist_ok=True)
        out_lines = []
        for e, what in self.known_hits:
            out_lines.append('KNOWN-FINDING: property=%s %s [%s]' % (self.prop, e.get('what', what), e['id']))
        # keep the first few violations (one line each)
        shown = 0
        seen_what = set()
        for k, (what, replay) in enumerate(self.violations):
            key = what[:60]
            if key in seen_what or shown >= 5:
                continue
            seen_what.add(key)
            shown += 1
            path = os.path.join(VERIF, 'replays', '%s-%d-%d.json' % (self.prop, self.seed, k))
            with open(path, 'w') as f:
                json.dump({'property': self.prop, 'what': what, 'replay': replay, 'seed': self.seed,
                           'tier': self.tier,
                           'replay_cmd': '/venv/bin/python harness/vcheck.py %s --replay %s' % (self.prop, path)},
                          f, indent=1, default=str)
            tail = ' no-failing-input-found' if replay.get('no_failing_input_found') else ''
            out_lines.append('VIOLATION property=%s replay=%s%s' % (self.prop, os.path.relpath(path, VERIF), tail))
        lean = self.lean
        cov = {
            'evaluations': self.evaluations,
            'distinct_nontrivial': len(self.nontrivial),
            'rule': rule,
            'samples': self.samples[:6] if self.samples else [{'note': 'no generated cases in this run'}],
            'traces_validated_against_impl': self.traces_validated,
            'input_distribution': dict(sorted(self.hist.items())),
            'inconclusive': self.inconclusive,
            'exhaustive': bool(self.exhaustive),
            'correspondence_disagreements': len(self.disagreements),
            'known_findings_hit': [e['id'] for e, _ in self.known_hits],
        }
        if lean is not None:
            cov.update({
                'obligations': max(lean.obligations, 0),
                'discharged': lean.discharged,
                'checker_cmd': checker_cmd or ('cd lean && lake build SageoptModel.Props.%s && lake env lean '
                                               '.lake/audit/Audit%s.lean  (# print axioms for every theorem)'
                                               % (self.prop, self.prop)),
                'trusted_base': trusted or [],
                'axioms': lean.axioms,
                'lean_modules': lean.modules,
                'lean_failed': lean.failed,
                'lean_wall_s': round(lean.wall, 2),
            })
            if getattr(lean, 'leanchecker', None):
                cov['leanchecker'] = lean.leanchecker
        if lean is not None and lean.discharged == 0:
            # nothing checked (build broken): the proof-level keys would be meaningless; keep the counts under other names
            cov['obligations_total'] = cov.pop('obligations')
            cov['obligations_discharged'] = cov.pop('discharged')
        cov.update(self.extra)
        cov['first_disagreements'] = json.loads(json.dumps(self.disagreements[:3], default=str))
        if os.environ.get('VERIF_DEBUG'):
            with open(os.path.join(VERIF, 'replays', '%s-disagreements.json' % self.prop), 'w') as f:
                json.dump(self.disagreements[:200], f, indent=1, default=str)
        ev = {
            'property_id': self.prop,
            'tier': self.tier,
            'seed': self.seed,
            'level': level,
            'coverage': cov,
            'assumptions': assumptions or [],
            'wall_s': round(self.elapsed(), 2),
            'violations': len(self.violations),
            'violation_summary': _summary(self.violations),
            'notes': self.notes,
        }
        with open(os.path.join(VERIF, 'evidence', self.prop + '.json'), 'w') as f:
            json.dump(ev, f, indent=1, default=str)
        for l in out_lines:
            print(l)
        print('%s %s tier=%s seed=%d evaluations=%d distinct_nontrivial=%d obligations=%s/%s disagreements=%d '
              'violations=%d known=%d wall=%.1fs'
              % ('FAIL' if self.violations else 'OK', self.prop, self.tier, self.seed, self.evaluations,
                 len(self.nontrivial), lean.discharged if lean else '-', lean.obligations if lean else '-',
                 len(self.disagreements), len(self.violations), len(self.known_hits), self.elapsed()))
        sys.stdout.flush()
        return 1 if self.violations else 0


def _summary(viols):
    out = {}
    for what, _ in viols:
        k = what.split(':')[0][:60]
        out[k] = out.get(k, 0) + 1
    return out


def broken_report(ctx, searched_what):
    """Called when an obligation or correspondence is broken but the search found no failing input."""
    lean = ctx.lean
    names = []
    if lean is not None and not lean.ok:
        names += lean.failed
    for d in ctx.disagreements[:3]:
        names.append('correspondence stream %s differs on case %s' % (d['stream'], canon_json(d['case'])[:300]))
    ctx.violations.append((
        'proof obligation / correspondence no longer checks; ' + searched_what,
        {'no_failing_input_found': True, 'no_longer_checks': names,
         'first_disagreements': ctx.disagreements[:3]}))


# ------------------------------------------------------------------------------------------------
# correspondence streams
# ------------------------------------------------------------------------------------------------

def impl_call(fn, case):
    """Run the implementation on one case; exceptions become {'raises': <type name>}."""
    try:
        return fn(case)
    except Exception as e:  # noqa: BLE001
        return {'raises': type(e).__name__, 'msg': str(e)[:200]}


def norm_raises(o):
    """Model errors are {'raises': text}; implementation errors {'raises': type, 'msg':...}.  For the
    diff only the fact of raising matters unless a stream says otherwise."""
    if isinstance(o, dict) and 'raises' in o:
        return {'raises': True}
    return o


def tolerant_equal(a, b, rel=1e-13):
    """deep equality of two JSON-like values in which strings that parse as rationals are compared as numbers with a relative
    tolerance (float64 results that need more than 53 bits differ from the exact model by rounding only)"""
    from fractions import Fraction
    if isinstance(a, dict) and isinstance(b, dict):
        return a.keys() == b.keys() and all(tolerant_equal(a[k], b[k], rel) for k in a)
    if isinstance(a, (list, tuple)) and isinstance(b, (list, tuple)):
        return len(a) == len(b) and all(tolerant_equal(x, y, rel) for x, y in zip(a, b))
    if isinstance(a, str) and isinstance(b, str):
        if a == b:
            return True
        try:
            x, y = Fraction(a), Fraction(b)
        except (ValueError, ZeroDivisionError):
            return False
        return abs(x - y) <= Fraction(rel) * max(1, abs(x), abs(y))
    return a == b


def correspond(ctx, stream, cases, impl_fn, line_fn, canon=None, nontrivial=None, batch=None, equal=None):
    """Run `cases` through implementation and model, record disagreements.  Returns list of
    (case, impl_out, model_out)."""
    impl_outs = [impl_call(impl_fn, c) for c in cases]
    lines = [line_fn(c) for c in cases]
    model_outs = run_driver(lines)
    results = []
    for c, io, mo in zip(cases, impl_outs, model_outs):
        if isinstance(mo, dict) and 'error' in mo:
            raise DriverError('driver protocol error on %s: %s' % (canon_json(c)[:200], mo['error']))
        a = norm_raises(io)
        b = norm_raises(mo)
        if canon is not None:
            a = canon(a) if not (isinstance(a, dict) and 'raises' in a) else a
            b = canon(b) if not (isinstance(b, dict) and 'raises' in b) else b
        nt = True if nontrivial is None else bool(nontrivial(c, io))
        ctx.case({'stream': stream, 'case': c}, nontrivial=nt)
        ctx.count('stream:' + stream)
        if isinstance(a, dict) and 'raises' in a:
            ctx.count('raises:' + stream)
        same = canon_json(a) == canon_json(b) or (equal is not None and equal(json.loads(canon_json(a)), json.loads(canon_json(b))))
        if not same:
            ctx.disagreement(stream, c, io, mo)
        else:
            ctx.traces_validated += 1
        results.append((c, io, mo))
    return results


class CtxLog:
    """stand-in for Ctx inside a forked child: records count / incon calls so that the parent can replay them"""

    def __init__(self, seed=0):
        self.log = []
        self.seed = seed

    def count(self, key, n=1):
        self.log.append(('count', key, n))

    def incon(self, key):
        self.log.append(('incon', key, 1))

    def case(self, case, nontrivial=True):
        self.log.append(('case', case, nontrivial))

    def violation(self, what, replay, tags=()):
        self.log.append(('violation', (what, replay), list(tags)))

    def replay_into(self, ctx):
        for kind, key, n in self.log:
            if kind == 'count':
                ctx.count(key, n)
            elif kind == 'incon':
                ctx.incon(key)
            elif kind == 'case':
                ctx.case(key, nontrivial=n)
            else:
                ctx.violation(key[0], key[1], tags=n)


class RecCtx(CtxLog):
    """stand-in for Ctx when ONE stored case is executed again (replay of a violation, regression corpus): records the violations,
    ignores the counters"""

    def __init__(self, seed=0):
        import random
        CtxLog.__init__(self, seed)
        self.rng = random.Random(seed)
        self.violations, self.disagreements = [], []
        self.hist, self.extra = {}, {}
        self.traces_validated = 0
        self.evaluations = 0

        class _Lean:
            ok = True
        self.lean = _Lean()

    def quick(self):
        return True

    def violation(self, what, replay=None, tags=()):
        self.violations.append((what, replay, list(tags)))

    def disagreement(self, stream, case, a, b):
        self.disagreements.append((stream, case, a, b))

    def first(self, prop=None):
        """the first recorded violation that is not a recorded (unrepaired) finding of `prop`"""
        known = {e.get('id') for e in load_known_findings(prop) if e.get('status') == 'known'} if prop else set()
        for what, _, tags in self.violations:
            if not (set(t for t in tags if t) & known):
                return what
        return None


def recheck_via_replay(replay_fn):
    """a `recheck` for the properties whose `replay` already executes the stored input again (exit status 1 = it fails)"""
    def recheck(r):
        import contextlib
        import io
        buf = io.StringIO()
        with contextlib.redirect_stdout(buf):
            rc = replay_fn({'what': '', 'replay': r, 'seed': 0, 'tier': 'quick'})
        if not rc:
            return None
        lines = [l for l in buf.getvalue().splitlines() if l.strip()]
        return 'the stored input fails again: %s' % (lines[-1][:300] if lines else '')
    return recheck


def run_regressions(ctx, prop, recheck):
    """the regression corpus: stored failing inputs of past (seeded or repaired) defects, each executed again through the property's
    own `recheck`; runs first"""
    for e in load_corpus(prop, regress=True):
        kind, res = forked(recheck, e['replay'], timeout=180)
        ctx.case({'stream': 'regression-corpus', 'origin': e['regress']})
        ctx.count('stream:regression-corpus')
        if kind == 'exception':
            ctx.violation('regression corpus (%s): executing the stored input again raised: %s' % (e['regress'], res), e['replay'])
        elif kind != 'ok':
            ctx.incon('regression corpus: solver %s' % kind)
        elif res:
            ctx.violation('regression corpus (%s): %s' % (e['regress'], res), e['replay'])


def forked(fn, *args, timeout=300):
    """Run fn(*args) in a forked child and return ('ok', result) | ('crash', signal or exit code) | ('timeout', None).
    Everything that calls the solver in-process goes through this: ECOS can die with a segmentation fault on degenerate data,
    and that must cost one inconclusive case, not the check."""
    import multiprocessing as mp
    import pickle as _pickle
    mctx = mp.get_context('fork')
    parent, child = mctx.Pipe(duplex=False)

    def work(conn):
        try:
            res = ('ok', fn(*args))
        except BaseException as e:  # noqa: BLE001
            res = ('exception', '%s: %s' % (type(e).__name__, str(e)[:300]))
        try:
            conn.send_bytes(_pickle.dumps(res))
        finally:
            conn.close()
            os._exit(0)
    p = mctx.Process(target=work, args=(child,))
    p.start()
    child.close()
    res = None
    try:
        if parent.poll(timeout):
            res = _pickle.loads(parent.recv_bytes())
    except (EOFError, OSError):
        res = None
    if res is None and p.is_alive() and not parent.poll(0):
        p.kill()
        p.join()
        return ('timeout', None)
    p.join(5)
    if p.is_alive():
        p.kill()
        p.join()
    if res is None:
        return ('crash', p.exitcode)
    return res


def load_corpus(prop, regress=False):
    """Minimised past failures (and pinned replays of fixed findings); always run first.  Two kinds of entries live side by side:
    cases in the property's own input format (returned by default) and stored replays of past violations (`regress` entries,
    executed by `run_regressions` through the property's `recheck`)."""
    d = os.path.join(VERIF, 'corpus', prop)
    out = []
    if os.path.isdir(d):
        for fn in sorted(os.listdir(d)):
            if fn.endswith('.json'):
                obj = json.load(open(os.path.join(d, fn)))
                out.extend(obj if isinstance(obj, list) else [obj])
    return [e for e in out if (isinstance(e, dict) and 'regress' in e) == regress]
