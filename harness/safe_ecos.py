"""
ECOS in a forked child process: a solver crash (ECOS can segfault on degenerate data) or a hang must never
take the check down.  Returns the ECOS solution dict restricted to plain data, or None.
"""
import multiprocessing as mp

import numpy as np


def _worker(conn, args, kwargs):
    try:
        import ecos
        sol = ecos.solve(*args, **kwargs)
        conn.send({'x': np.asarray(sol['x']).tolist(), 'y': np.asarray(sol['y']).tolist(),
                   'z': np.asarray(sol['z']).tolist(), 's': np.asarray(sol['s']).tolist(),
                   'info': {k: v for k, v in sol['info'].items() if isinstance(v, (int, float, str))}})
    except Exception as e:  # noqa: BLE001
        conn.send({'error': '%s: %s' % (type(e).__name__, e)})
    finally:
        conn.close()


def solve(*args, timeout=20, **kwargs):
    ctx = mp.get_context('fork')
    parent, child = ctx.Pipe(duplex=False)
    p = ctx.Process(target=_worker, args=(child, args, kwargs))
    p.start()
    child.close()
    res = None
    try:
        if parent.poll(timeout):
            res = parent.recv()
    except (EOFError, OSError):
        res = None
    p.join(1)
    if p.is_alive():
        p.kill()
        p.join()
    if res is None or 'error' in res:
        return None
    return res
