"""
Calibration only -- NOT part of the verification machinery (see DESIGN.md section 5).

Reproduces, on /repo's current working tree, the behaviours that were observed while the design
was written (the "pre-findings" F1..F16).  Each line prints what the real code does next to what
the property in properties.jsonl demands.  The machinery described in DESIGN.md has to re-derive
each of these from a broken proof obligation / correspondence before anything is fixed or listed.

Run:  /venv/bin/python /verif/calibration/prefindings.py
"""
import os
import pickle
import subprocess
import sys
import tempfile
import warnings

warnings.filterwarnings('ignore')
import numpy as np  # noqa: E402
import sageopt as so  # noqa: E402
import sageopt.coniclifts as cl  # noqa: E402
from sageopt.coniclifts.base import Expression  # noqa: E402
from sageopt.coniclifts.problems.solvers.ecos import ECOS  # noqa: E402
from sageopt.relaxations import sig_solution_recovery as ssr  # noqa: E402
from sageopt.relaxations import symbolic_correspondences as sym_corr  # noqa: E402
from sageopt.symbolic.signomials import SigDomain, Signomial  # noqa: E402


def show(tag, what, thunk):
    try:
        res = thunk()
    except Exception as e:  # noqa: BLE001
        res = 'RAISED %s: %s' % (type(e).__name__, str(e).strip().split('\n')[0][:90])
    print('%-4s %-58s %s' % (tag, what, res))


# F1 (C10, C09): adjacent second-order cones are merged by ECOS.apply
x = cl.Variable(shape=(2,), name='x1')
y = cl.Variable(shape=(2,), name='y1')
p = cl.Problem(cl.MAX, x[0] + x[1] + y[0] + y[1], [cl.vector2norm(x) <= 1, cl.vector2norm(y) <= 2])
show('F1', "ECOS dims for K=[..,S3,S3] (want q=[3,3])", lambda: ECOS.apply(p.c, p.A, p.b, p.K, {})[0]['cones'])
show('F1', "max over two discs (want 4.2426)", lambda: p.solve(solver='ECOS', verbose=False))

# F2 (C11): compiling the same constraint objects twice
x = cl.Variable(shape=(2,), name='x2')
cons = [cl.vector2norm(x) <= 1]
show('F2', "first Problem from cons", lambda: cl.Problem(cl.MAX, x[0], cons).solve(verbose=False))
show('F2', "second Problem from the same cons (want same)", lambda: cl.Problem(cl.MAX, x[0], cons).solve(verbose=False))

# F3 (C08): repeated arguments to nonlinear operators
v = cl.Variable(shape=(1,), name='y3')
v.value = np.array([0.5])
show('F3', "weighted_sum_exp([1,2],[y,y]) at y=.5 (want 4.9462)",
     lambda: float(cl.weighted_sum_exp(np.array([1.0, 2.0]), cl.Expression([v[0], v[0]])).value))
show('F3', "relent([y,y],[1,1]) at y=.5 (want -0.6931)",
     lambda: float(cl.relent(cl.Expression([v[0], v[0]]), cl.Expression([1.0, 1.0])).value))

# F4 (C12): Signomial equality
s1 = Signomial(np.array([[0.], [1.]]), np.array([0., 1.]))
s2 = Signomial(np.array([[1.], [2.]]), np.array([1., 5.]))
show('F4', "(s1 == s2, s2 == s1) (want equal answers)", lambda: (s1 == s2, s2 == s1))
s3 = Signomial(np.array([[1.]]), np.array([1.]))
show('F4', "explicit zero term vs same function (want True)", lambda: s1 == s3)

# F5 (C08): introspection / equivalence test raise
x = cl.Variable(shape=(2,), name='x5')
z = cl.Variable(shape=(2,), name='z5')
show('F5', "(x+1).scalar_atoms() (want list of atoms)", lambda: (x + 1).scalar_atoms())
show('F5', "are_equivalent(x+z, x) (want False, no raise)", lambda: Expression.are_equivalent(x + z, x))
show('F5', "are_equivalent(x, x+z) (want False, no raise)", lambda: Expression.are_equivalent(x, x + z))

# F6 (C14): Signomial.hess_val
f = Signomial(np.array([[1, 0], [1, 2]]), np.array([1., 2.]))
pt = np.array([0.1, 0.2])
show('F6', "hess_val (m=n)", lambda: np.round(f.hess_val(pt), 4).tolist())
show('F6', "symbolic hess evaluated (reference)",
     lambda: np.round(np.array([[f.hess[i, j](pt) for j in range(2)] for i in range(2)], dtype=float), 4).tolist())
f3 = Signomial(np.array([[1, 0], [0, 1], [1, 1]]), np.array([1., 2., 3.]))
show('F6', "hess_val (m!=n)", lambda: f3.hess_val(pt))

# F7 (C19): forced equality of the AGE sum with an uncovered positive constant coefficient
f7 = Signomial(np.array([[0, 0], [1, 0], [0, 1], [2, 0]]), np.array([1., -1., 1., 1.]))
for fe in (False, True):
    cl.sum_age_force_equality(fe)
    show('F7', "sage_feasibility, sum_age_force_equality=%s" % fe, lambda: so.sage_feasibility(f7).solve(verbose=False))
cl.sum_age_force_equality(False)

# F8 (C17): NaN passes the feasibility filter; lifted PolyDomain crashes poly_solrec
g8 = Signomial(np.array([[0.], [1.]]), np.array([1., -1.]))
show('F8', "is_feasible(nan, [1 - e^x]) (want False)", lambda: ssr.is_feasible(np.array([np.nan]), [g8], []))
xp = so.standard_poly_monomials(2)
fp = xp[0] ** 2 * xp[1] ** 2 + xp[0] ** 4 - 3 * xp[0] ** 2 + xp[1] ** 2
gts = [1 - xp[0] ** 2 - xp[1] ** 2 - xp[0] ** 2 * xp[1] ** 2]
X8 = so.infer_domain(fp, gts, [])
pr8 = so.poly_constrained_relaxation(fp, gts, [], X=X8, form='dual')
pr8.solve(verbose=False)
show('F8', "poly_solrec with lifted X (want a list)", lambda: [np.round(s.astype(float), 3).tolist() for s in so.poly_solrec(pr8)])

# F9 (C07): nonconvex elementwise constraint is silently relaxed
x = cl.Variable(shape=(2,), name='x9')
con9 = -cl.vector2norm(x) <= -1          # ||x|| >= 1, nonconvex
show('F9', "feasibility of {||x||>=1, |x_i|<=.25} (want infeasible: inf)",
     lambda: cl.Problem(cl.MIN, cl.Expression([0]), [con9, x <= 0.25, x >= -0.25]).solve(verbose=False))

# F10 (C19, C06): default heuristic cover reduction on a conditional SAGE constraint
f10 = Signomial(np.array([[0, 0], [0, 1], [1, 0]]), np.array([1., 1., -1.]))
xv = cl.Variable(shape=(2,), name='xv10')
X10 = SigDomain(2, coniclifts_cons=[xv[0] <= xv[1]], gts=[lambda w: w[1] - w[0]], eqs=[])
for hr in (True, False):
    cl.heuristic_reduce_cond_age_cones(hr)
    show('F10', "bound of 1+e^y-e^x on {x<=y}, heuristic=%s (want 1)" % hr,
         lambda: so.sig_relaxation(f10, X=X10, form='primal').solve(verbose=False))
cl.heuristic_reduce_cond_age_cones(True)

# F11 (C20): improper slice unpickled after its proper parent steals the parent link
s = cl.Variable(shape=(1,), name='s11')
p11 = pickle.loads(pickle.dumps(cl.Problem(cl.MIN, s, [s[0:1] >= 1])))
show('F11', "constraint variables proper after round trip (want [True])",
     lambda: [w.is_proper() for c in p11.constraints for w in c.variables()])
show('F11', "recompile after round trip (want solved, 1.0)",
     lambda: cl.Problem(p11.objective_sense, p11.objective_expr, p11.constraints).solve(verbose=False))

# F12 (C20): unpickling in a fresh interpreter does not advance the id counter
tmp = tempfile.mkdtemp()
blob = os.path.join(tmp, 'x.pkl')
dump = ("import warnings; warnings.filterwarnings('ignore'); import pickle, sageopt.coniclifts as cl\n"
        "pickle.dump(cl.Variable(shape=(2,), name='x'), open(%r, 'wb'))" % blob)
load = ("import warnings; warnings.filterwarnings('ignore'); import pickle, sageopt.coniclifts as cl\n"
        "x = pickle.load(open(%r, 'rb')); y = cl.Variable(shape=(2,), name='y')\n"
        "p = cl.Problem(cl.MIN, x[0]+x[1]+y[0]+y[1], [x >= 1, y >= 10])\n"
        "print(x.scalar_variable_ids, y.scalar_variable_ids, p.solve(verbose=False))" % blob)
subprocess.run([sys.executable, '-c', dump], check=True)
show('F12', "fresh-interpreter load + new Variable (want ids disjoint, 22)",
     lambda: subprocess.run([sys.executable, '-c', load], capture_output=True, text=True).stdout.strip())

# F14 (C15): degenerate constraints
ys = so.standard_sig_monomials(2)
show('F14', "infer_domain with equality e^x == 0", lambda: so.infer_domain(ys[0] + ys[1], [], [ys[0] * 1.0]))

# F15 (C16): missing exponent silently dropped
g15 = Signomial(np.array([[1., 0], [5., 5.]]), np.array([2., 7.]))
show('F15', "relative_coeff_vector with a missing row (want error)",
     lambda: sym_corr.relative_coeff_vector(g15, np.array([[0., 0], [1., 0]])).tolist())

# F16 (C19): kernel_basis option with a trivial kernel
f16 = Signomial(np.array([[0, 0], [1, 0], [0, 1]]), np.array([1., 2., 3.]))
for kb in (False, True):
    cl.kernel_basis_age_witnesses(kb)
    show('F16', "sig_relaxation primal, kernel_basis=%s (want 1.0)" % kb,
         lambda: so.sig_relaxation(f16, form='primal').solve(verbose=False))
cl.kernel_basis_age_witnesses(False)

# F17 (C08): equal affine Expressions reported as not equivalent; scalar-level numpy scalar types
x = cl.Variable(shape=(2,), name='x17')
y = cl.Variable(shape=(2,), name='y17')
show('F17', "are_equivalent(x - x + y, y) (want True)", lambda: Expression.are_equivalent(x - x + y, y))
show('F17', "x[0] * np.int8(2) (array-level x * np.int8(2) works)", lambda: (x[0] * np.int8(2)).atoms_to_coeffs)

# F18 (C12): from_dict caches an unnormalised alpha_c
s18 = Signomial.from_dict({(1.00000001, 0): 1.0, (1.0, 0): 2.0})
show('F18', "(c, query_coeff((1,0))) (want the same number)", lambda: (s18.c.tolist(), s18.query_coeff(np.array([1.0, 0.0]))))
