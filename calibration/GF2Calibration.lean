/-
Calibration only — NOT part of the verification machinery (see DESIGN.md header and §4/C18).
A functional model of `mod2rref(forward_only=True)` that makes the same pivot choices as the
in-place code (first row at or below h with a 1 in column k; swap with row h; xor into the rows
below), and the theorem that it preserves the solution set, for every matrix size.  Core Lean only.
Check with:   lean GF2Calibration.lean      (expected axioms: [propext, Quot.sound])
-/
set_option linter.unusedVariables false
set_option linter.unusedSimpArgs false
abbrev Row := List Bool

def dotB : Row → Row → Bool
  | a :: as, x :: xs => xor (a && x) (dotB as xs)
  | _, _ => false

def addRow : Row → Row → Row
  | a :: as, b :: bs => xor a b :: addRow as bs
  | as, [] => as
  | [], bs => bs

theorem dotB_nil_left (x : Row) : dotB [] x = false := by cases x <;> rfl

theorem dotB_addRow (a b x : Row) : dotB (addRow a b) x = xor (dotB a x) (dotB b x) := by
  induction a generalizing b x with
  | nil => cases b <;> simp [addRow, dotB_nil_left]
  | cons a as ih =>
    cases b with
    | nil => simp [addRow, dotB_nil_left]
    | cons b bs =>
      cases x with
      | nil => simp [addRow, dotB]
      | cons x xs =>
        simp only [addRow, dotB, ih]
        cases a <;> cases b <;> cases x <;> cases dotB as xs <;> cases dotB bs xs <;> rfl

def entry (r : Row) (k : Nat) : Bool := r.getD k false

def elim (k : Nat) (p : Row) (rows : List Row) : List Row :=
  rows.map fun r => if entry r k then addRow r p else r

def Sol (rows : List Row) (x : Row) : Prop := ∀ r ∈ rows, dotB r x = false

theorem sol_cons (r : Row) (rows : List Row) (x : Row) :
    Sol (r :: rows) x ↔ dotB r x = false ∧ Sol rows x := by
  simp [Sol]

theorem sol_elim (k : Nat) (p : Row) (rows : List Row) (x : Row) (hp : dotB p x = false) :
    Sol (elim k p rows) x ↔ Sol rows x := by
  induction rows with
  | nil => simp [elim, Sol]
  | cons r rs ih =>
    have : elim k p (r :: rs) = (if entry r k then addRow r p else r) :: elim k p rs := by simp [elim]
    rw [this, sol_cons, sol_cons, ih]
    by_cases h : entry r k
    · simp [h, dotB_addRow, hp]
    · simp [h]

/-- first row with a 1 in column k among `rs`; the rows left behind, with `r0` (the old row h) swapped
    into the pivot's place -/
def pickPivot (k : Nat) (r0 : Row) : List Row → Option (Row × List Row)
  | [] => none
  | r :: rs =>
    if entry r k then some (r, r0 :: rs)
    else (pickPivot k r0 rs).map fun q => (q.1, r :: q.2)

theorem sol_pickPivot (k : Nat) (r0 : Row) (rs : List Row) (p : Row) (rs' : List Row)
    (h : pickPivot k r0 rs = some (p, rs')) (x : Row) :
    Sol (p :: rs') x ↔ Sol (r0 :: rs) x := by
  induction rs generalizing p rs' with
  | nil => simp [pickPivot] at h
  | cons r rs ih =>
    unfold pickPivot at h
    by_cases he : entry r k
    · simp [he] at h
      obtain ⟨rfl, rfl⟩ := h
      simp only [sol_cons]; constructor <;> (intro ⟨a, b, c⟩; exact ⟨b, a, c⟩)
    · simp [he] at h
      obtain ⟨q, qs, hq, rfl, rfl⟩ := h
      have := ih q qs hq
      simp only [sol_cons] at this ⊢
      constructor
      · intro ⟨a, b, c⟩; obtain ⟨d, e⟩ := this.mp ⟨a, c⟩; exact ⟨d, b, e⟩
      · intro ⟨a, b, c⟩; obtain ⟨d, e⟩ := this.mpr ⟨a, c⟩; exact ⟨d, b, e⟩

def fwd (n : Nat) (k : Nat) (rem done : List Row) (piv : List Nat) : List Row × List Nat :=
  if h : k < n then
    match rem with
    | [] => (done.reverse, piv.reverse)
    | r0 :: rest =>
      if entry r0 k then
        fwd n (k+1) (elim k r0 rest) (r0 :: done) (k :: piv)
      else
        match pickPivot k r0 rest with
        | none => fwd n (k+1) (r0 :: rest) done piv
        | some (p, rest') => fwd n (k+1) (elim k p rest') (p :: done) (k :: piv)
  else (done.reverse ++ rem, piv.reverse)
termination_by n - k

theorem sol_append (a b : List Row) (x : Row) : Sol (a ++ b) x ↔ Sol a x ∧ Sol b x := by
  simp [Sol, or_imp, forall_and]

theorem sol_reverse (a : List Row) (x : Row) : Sol a.reverse x ↔ Sol a x := by simp [Sol]

/-- T1: forward elimination preserves the solution set of the homogeneous system, for every matrix size. -/
theorem fwd_sol (n k : Nat) (rem done : List Row) (piv : List Nat) (x : Row) :
    Sol (fwd n k rem done piv).1 x ↔ Sol done x ∧ Sol rem x := by
  induction hm : n - k generalizing k rem done piv with
  | zero =>
    unfold fwd
    have : ¬ k < n := by omega
    simp [this, sol_append, sol_reverse]
  | succ d ih =>
    unfold fwd
    have hk : k < n := by omega
    simp only [hk, dite_true]
    cases rem with
    | nil => simp [sol_reverse, Sol]
    | cons r0 rest =>
      by_cases he : entry r0 k
      · simp only [he, if_true]
        rw [ih (k+1) _ _ _ (by omega), sol_cons, sol_cons]
        constructor
        · intro ⟨⟨a, b⟩, c⟩; exact ⟨b, a, (sol_elim k r0 rest x a).mp c⟩
        · intro ⟨b, a, c⟩; exact ⟨⟨a, b⟩, (sol_elim k r0 rest x a).mpr c⟩
      · simp only [he]
        cases hp : pickPivot k r0 rest with
        | none => simp only [Bool.false_eq_true, if_false]; rw [ih (k+1) _ _ _ (by omega)]
        | some q =>
          obtain ⟨p, rest'⟩ := q
          simp only [Bool.false_eq_true, if_false]
          rw [ih (k+1) _ _ _ (by omega), sol_cons]
          have hs := sol_pickPivot k r0 rest p rest' hp x
          rw [sol_cons] at hs
          constructor
          · intro ⟨⟨a, b⟩, c⟩; exact ⟨b, hs.mp ⟨a, (sol_elim k p rest' x a).mp c⟩⟩
          · intro ⟨b, c⟩; obtain ⟨a, d⟩ := hs.mpr c; exact ⟨⟨a, b⟩, (sol_elim k p rest' x a).mpr d⟩

#print axioms fwd_sol
#eval fwd 3 0 [[true,true,false],[true,false,true],[false,true,true]] [] []
